package opset13

// Demonstration for the C05 finding D8: auto_pad=SAME_UPPER computes the pads from the batch and
// channel extents instead of the spatial extents, so the output shape is not ceil(in / stride).

import (
	"testing"

	"gorgonia.org/tensor"
)

func TestDemoAutoPadUsesSpatialAxes(t *testing.T) {
	c := &Conv{autoPad: SameUpper, strides: []int{2, 2}, group: 1}
	x := tensor.New(tensor.WithShape(4, 1, 5, 5), tensor.WithBacking(make([]float32, 100)))
	w := tensor.New(tensor.WithShape(1, 1, 3, 3), tensor.WithBacking(make([]float32, 9)))
	out, err := c.Apply([]tensor.Tensor{x, w, nil})
	if err != nil {
		t.Fatalf("Apply: %v", err)
	}
	// ONNX: SAME_UPPER gives output extent ceil(5/2) = 3 on both spatial axes
	if s := out[0].Shape(); len(s) != 4 || s[2] != 3 || s[3] != 3 {
		t.Errorf("DEMO-CONFIRMED Conv(auto_pad=SAME_UPPER, stride 2) on a (4,1,5,5) input gave shape %v and pads %v, want spatial extents (3,3)", s, c.pads)
	}
}
