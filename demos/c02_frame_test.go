package opset13

// Demonstrations for the C02 findings: operators that modify tensors handed to them (caller inputs
// or model weights), so that a second Run sees different data.

import (
	"testing"

	"gorgonia.org/tensor"
)

func shapeOf(t tensor.Tensor) []int { return append([]int{}, t.Shape()...) }

func sameInts(a, b []int) bool {
	if len(a) != len(b) {
		return false
	}
	for i := range a {
		if a[i] != b[i] {
			return false
		}
	}
	return true
}

func TestDemoArgMaxKeepsInputShape(t *testing.T) {
	a := &ArgMax{axis: 1, keepDims: true}
	in := tensor.New(tensor.WithShape(2, 3), tensor.WithBacking([]float32{1, 5, 2, 7, 0, 3}))
	before := shapeOf(in)
	if _, err := a.Apply([]tensor.Tensor{in}); err != nil {
		t.Fatal(err)
	}
	if !sameInts(before, shapeOf(in)) {
		t.Errorf("DEMO-CONFIRMED ArgMax(keepdims) changed the shape of its input from %v to %v", before, shapeOf(in))
	}
}

func TestDemoRecurrentKeepInitialState(t *testing.T) {
	seq, batch, in, hid := 2, 1, 2, 3
	X := tensor.New(tensor.WithShape(seq, batch, in), tensor.WithBacking(make([]float32, seq*batch*in)))
	for name, mk := range map[string]func() (interface {
		Apply([]tensor.Tensor) ([]tensor.Tensor, error)
	}, []tensor.Tensor){
		"LSTM": func() (interface {
			Apply([]tensor.Tensor) ([]tensor.Tensor, error)
		}, []tensor.Tensor) {
			l := &LSTM{activations: []string{"sigmoid", "tanh", "tanh"}, direction: "forward", hiddenSize: hid, outputs: []string{"Y", "Y_h", "Y_c"}}
			W := tensor.New(tensor.WithShape(1, 4*hid, in), tensor.WithBacking(make([]float32, 4*hid*in)))
			R := tensor.New(tensor.WithShape(1, 4*hid, hid), tensor.WithBacking(make([]float32, 4*hid*hid)))
			h0 := tensor.New(tensor.WithShape(1, batch, hid), tensor.WithBacking(make([]float32, batch*hid)))
			c0 := tensor.New(tensor.WithShape(1, batch, hid), tensor.WithBacking(make([]float32, batch*hid)))
			return l, []tensor.Tensor{X, W, R, nil, nil, h0, c0, nil}
		},
		"GRU": func() (interface {
			Apply([]tensor.Tensor) ([]tensor.Tensor, error)
		}, []tensor.Tensor) {
			g := &GRU{activations: []string{"sigmoid", "tanh"}, direction: "forward", hiddenSize: hid}
			W := tensor.New(tensor.WithShape(1, 3*hid, in), tensor.WithBacking(make([]float32, 3*hid*in)))
			R := tensor.New(tensor.WithShape(1, 3*hid, hid), tensor.WithBacking(make([]float32, 3*hid*hid)))
			h0 := tensor.New(tensor.WithShape(1, batch, hid), tensor.WithBacking(make([]float32, batch*hid)))
			return g, []tensor.Tensor{X, W, R, nil, nil, h0}
		},
		"RNN": func() (interface {
			Apply([]tensor.Tensor) ([]tensor.Tensor, error)
		}, []tensor.Tensor) {
			r := &RNN{activations: []string{"tanh"}, direction: "forward", hiddenSize: hid}
			W := tensor.New(tensor.WithShape(1, hid, in), tensor.WithBacking(make([]float32, hid*in)))
			R := tensor.New(tensor.WithShape(1, hid, hid), tensor.WithBacking(make([]float32, hid*hid)))
			h0 := tensor.New(tensor.WithShape(1, batch, hid), tensor.WithBacking(make([]float32, batch*hid)))
			return r, []tensor.Tensor{X, W, R, nil, nil, h0}
		},
	} {
		op, inputs := mk()
		before := shapeOf(inputs[5])
		if _, err := op.Apply(inputs); err != nil {
			t.Errorf("%s: first Apply failed: %v", name, err)
			continue
		}
		if !sameInts(before, shapeOf(inputs[5])) {
			t.Errorf("DEMO-CONFIRMED %s changed the shape of initial_h from %v to %v (a second Run with the same tensor sees a different input)", name, before, shapeOf(inputs[5]))
		}
	}
}

func TestDemoConvKeepsBiasShape(t *testing.T) {
	c := &Conv{autoPad: "NOTSET", dilations: []int{}, group: 1, kernelShape: []int{}, pads: []int{}, strides: []int{}}
	x := tensor.New(tensor.WithShape(1, 1, 3, 3), tensor.WithBacking(make([]float32, 9)))
	w := tensor.New(tensor.WithShape(2, 1, 2, 2), tensor.WithBacking(make([]float32, 8)))
	b := tensor.New(tensor.WithShape(2), tensor.WithBacking([]float32{1, 2}))
	before := shapeOf(b)
	if _, err := c.Apply([]tensor.Tensor{x, w, b}); err != nil {
		t.Fatal(err)
	}
	if !sameInts(before, shapeOf(b)) {
		t.Errorf("DEMO-CONFIRMED Conv changed the shape of its bias input from %v to %v", before, shapeOf(b))
	}
}
