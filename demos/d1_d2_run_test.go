package gonnx

// Demonstrations for two C01 findings (run with: go test -overlay, see /verif/demos/run.sh).

import (
	"testing"

	"github.com/advancedclimatesystems/gonnx/onnx"
	"gorgonia.org/tensor"
)

func identityModel(t *testing.T, withInit bool, outName string) *Model {
	vi := func(name string) *onnx.ValueInfoProto {
		return &onnx.ValueInfoProto{Name: name, Type: &onnx.TypeProto{Value: &onnx.TypeProto_TensorType{TensorType: &onnx.TypeProto_Tensor{
			ElemType: 1, Shape: &onnx.TensorShapeProto{Dim: []*onnx.TensorShapeProto_Dimension{{Value: &onnx.TensorShapeProto_Dimension_DimValue{DimValue: 2}}}}}}}}
	}
	g := &onnx.GraphProto{
		Input:  []*onnx.ValueInfoProto{vi("x")},
		Output: []*onnx.ValueInfoProto{vi(outName)},
		Node:   []*onnx.NodeProto{{OpType: "Abs", Input: []string{"x"}, Output: []string{"y"}}},
	}
	if withInit {
		g.Initializer = []*onnx.TensorProto{{Name: "x", DataType: 1, Dims: []int64{2}, FloatData: []float32{-100, -200}}}
	}
	m, err := NewModel(&onnx.ModelProto{Graph: g, OpsetImport: []*onnx.OperatorSetIdProto{{Version: 13}}})
	if err != nil {
		t.Fatal(err)
	}
	return m
}

// D1: a caller-supplied tensor for an input that also has an initializer must win.
func TestDemoCallerInputOverridesInitializer(t *testing.T) {
	m := identityModel(t, true, "y")
	x := tensor.New(tensor.WithShape(2), tensor.WithBacking([]float32{-1, -2}))
	out, err := m.Run(Tensors{"x": x})
	if err != nil {
		t.Fatal(err)
	}
	got := out["y"].Data().([]float32)
	if got[0] != 1 || got[1] != 2 {
		t.Fatalf("DEMO-CONFIRMED: caller input ignored, initializer used: got %v, want [1 2]", got)
	}
}

// D2: a declared output that no node produced must be an error, not a nil entry.
func TestDemoMissingOutputIsAnError(t *testing.T) {
	m := identityModel(t, false, "never_produced")
	x := tensor.New(tensor.WithShape(2), tensor.WithBacking([]float32{-1, -2}))
	out, err := m.Run(Tensors{"x": x})
	if err == nil {
		if v, ok := out["never_produced"]; ok && v == nil {
			t.Fatalf("DEMO-CONFIRMED: Run returned err == nil with a nil tensor for a declared output")
		}
	}
}
