package opset13

// Demonstrations for the C08 findings (D17) on Expand: an incompatible target extent is repeated
// instead of refused, and a target of lower rank is aligned at the first axis instead of the last.

import (
	"testing"

	"gorgonia.org/tensor"
)

func TestDemoExpandIncompatibleTarget(t *testing.T) {
	e := &Expand{}
	in := tensor.New(tensor.WithShape(2, 3), tensor.WithBacking([]float32{1, 2, 3, 4, 5, 6}))
	target := tensor.New(tensor.WithShape(2), tensor.WithBacking([]int64{4, 3}))
	out, err := e.Apply([]tensor.Tensor{in, target})
	if err == nil {
		t.Errorf("DEMO-CONFIRMED Expand of a (2,3) tensor to target [4 3] (2 vs 4 is not broadcastable) returned shape %v and no error", out[0].Shape())
	}
}

func TestDemoExpandLowerRankTarget(t *testing.T) {
	e := &Expand{}
	in := tensor.New(tensor.WithShape(2, 3), tensor.WithBacking([]float32{1, 2, 3, 4, 5, 6}))
	target := tensor.New(tensor.WithShape(1), tensor.WithBacking([]int64{3}))
	out, err := e.Apply([]tensor.Tensor{in, target})
	if err != nil {
		t.Errorf("DEMO-CONFIRMED Expand of a (2,3) tensor to target [3] failed: %v", err)
		return
	}
	if s := out[0].Shape(); len(s) != 2 || s[0] != 2 || s[1] != 3 {
		t.Errorf("DEMO-CONFIRMED Expand of a (2,3) tensor to target [3] gave shape %v, want (2, 3)", s)
	}
}
