package opset13

// Demonstration for the C09 finding: ArgMax with an axis below -rank panics instead of reporting an
// error (axis -rank-1 becomes gorgonia's AllAxes = -1, and the keepdims branch then indexes the
// shape with -1).

import (
	"testing"

	"gorgonia.org/tensor"
)

func TestDemoArgMaxAxisBelowRange(t *testing.T) {
	for _, ax := range []int{-3, -4} {
		func() {
			defer func() {
				if r := recover(); r != nil {
					t.Errorf("DEMO-CONFIRMED ArgMax{axis:%d, keepdims:true} on a rank-2 tensor panicked: %v", ax, r)
				}
			}()
			a := &ArgMax{axis: ax, keepDims: true}
			in := tensor.New(tensor.WithShape(2, 3), tensor.WithBacking([]float32{1, 5, 2, 7, 0, 3}))
			if _, err := a.Apply([]tensor.Tensor{in}); err == nil {
				t.Errorf("DEMO-CONFIRMED ArgMax{axis:%d} on a rank-2 tensor returned no error", ax)
			}
		}()
	}
}
