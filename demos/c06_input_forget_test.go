package opset13

// Demonstration for the C06 finding fixed by the "fix: LSTM silently ignored input_forget" commit:
// input_forget = 1 (couple the input and forget gates) was accepted and then ignored.

import (
	"testing"

	"github.com/advancedclimatesystems/gonnx/onnx"
)

func TestDemoLSTMInputForgetIgnored(t *testing.T) {
	l := &LSTM{activations: []string{"sigmoid", "tanh", "tanh"}}
	err := l.Init(&onnx.NodeProto{Attribute: []*onnx.AttributeProto{{Name: "hidden_size", I: 2}, {Name: "input_forget", I: 1}}})
	if err == nil {
		t.Errorf("DEMO-CONFIRMED LSTM accepts input_forget=1, which Apply never reads")
	}
}
