package opset13

// Demonstrations for C07 findings: requests that must be refused with an error panic instead.

import (
	"testing"

	"gorgonia.org/tensor"
)

func demoPanics(t *testing.T, name string, f func()) {
	defer func() {
		if r := recover(); r != nil {
			t.Errorf("DEMO-CONFIRMED %s: panic: %v", name, r)
		}
	}()
	f()
}

func TestDemoReshapeNegativeDims(t *testing.T) {
	demoPanics(t, "Reshape with dims [-2,-3]", func() {
		r := &Reshape{}
		in := tensor.New(tensor.WithShape(2, 3), tensor.WithBacking([]float32{1, 2, 3, 4, 5, 6}))
		shape := tensor.New(tensor.WithShape(2), tensor.WithBacking([]int64{-2, -3}))
		_, _ = r.Apply([]tensor.Tensor{in, shape})
	})
}

func TestDemoReshapeScalarShape(t *testing.T) {
	demoPanics(t, "Reshape with a rank-0 shape tensor", func() {
		r := &Reshape{}
		in := tensor.New(tensor.WithShape(1), tensor.WithBacking([]float32{1}))
		shape := tensor.New(tensor.FromScalar(int64(1)))
		_, _ = r.Apply([]tensor.Tensor{in, shape})
	})
}

func TestDemoFlattenAxisOutOfRange(t *testing.T) {
	demoPanics(t, "Flatten with axis 5 on a rank-2 tensor", func() {
		f := &Flatten{axis: 5}
		in := tensor.New(tensor.WithShape(2, 3), tensor.WithBacking([]float32{1, 2, 3, 4, 5, 6}))
		_, _ = f.Apply([]tensor.Tensor{in})
	})
}

func TestDemoShapeOfScalar(t *testing.T) {
	demoPanics(t, "Shape of a rank-0 tensor", func() {
		s := &Shape{}
		in := tensor.New(tensor.FromScalar(float32(1)))
		_, _ = s.Apply([]tensor.Tensor{in})
	})
}
