package opset13

// Demonstration for the open C09 finding D18: ReduceMax / ReduceMin without any attribute (ONNX:
// reduce over all axes, keepdims = 1) are refused at Init.

import (
	"testing"

	"github.com/advancedclimatesystems/gonnx/onnx"
)

func TestDemoReduceWithoutAxes(t *testing.T) {
	if err := (&ReduceMax{}).Init(&onnx.NodeProto{}); err != nil {
		t.Errorf("DEMO-CONFIRMED ReduceMax without attributes is refused: %v", err)
	}
	if err := (&ReduceMin{}).Init(&onnx.NodeProto{}); err != nil {
		t.Errorf("DEMO-CONFIRMED ReduceMin without attributes is refused: %v", err)
	}
}
