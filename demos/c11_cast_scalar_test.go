package ops

// Demonstration for the C11 finding D21: casting a rank-0 tensor of an unsigned element type panics.

import (
	"testing"

	"gorgonia.org/tensor"
)

func TestDemoCastUnsignedScalar(t *testing.T) {
	for _, v := range []interface{}{uint8(3), uint16(3), uint32(3), uint64(3)} {
		func() {
			defer func() {
				if r := recover(); r != nil {
					t.Errorf("DEMO-CONFIRMED ConvertTensorDtype of a rank-0 %T tensor panicked: %v", v, r)
				}
			}()
			in := tensor.New(tensor.FromScalar(v))
			if _, err := ConvertTensorDtype(in, 1); err != nil {
				t.Logf("%T: error %v", v, err)
			}
		}()
	}
}
