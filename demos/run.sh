#!/bin/sh
# usage: demos/run.sh <test file under /verif/demos> <package dir relative to /repo> [-run regex]
# Injects the demonstration into the package with -overlay (the repository is not touched).
set -e
f=$(cd "$(dirname "$1")" && pwd)/$(basename "$1"); pkg=$2; shift 2
tmp=$(mktemp -d); trap 'rm -rf "$tmp"' EXIT
printf '{"Replace": {"/repo/%s/zz_demo_test.go": "%s"}}' "$pkg" "$f" | sed 's#/repo/\./#/repo/#' > "$tmp/ov.json"
cd /repo/$pkg && GOFLAGS=-mod=mod GOPROXY=off GOSUMDB=off GOTOOLCHAIN=local go test -overlay "$tmp/ov.json" -vet=off -count=1 -timeout 120s "$@" .
