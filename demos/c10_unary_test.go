package opset13

// Demonstrations for the C10 findings.
//  - TestDemoReluOfNegativeInfinity (fixed by 9c09b97): ReLU was X * (X > 0), so -Inf gave NaN.
//  - TestDemoAbsOfUnsigned (fixed by ab67fa3): Abs accepted uint8..uint64 at the input gate and
//    then failed in tensor.Abs.
//  - TestDemoPReluOfScalar (open): PRelu of a rank-0 tensor is refused with a type-assert error
//    because Data() of a scalar tensor is the element, not a slice.

import (
	"math"
	"testing"

	"gorgonia.org/tensor"
)

func TestDemoReluOfNegativeInfinity(t *testing.T) {
	x := tensor.New(tensor.WithShape(2), tensor.WithBacking([]float32{float32(math.Inf(-1)), 3}))
	out, err := (&Relu{}).Apply([]tensor.Tensor{x})
	if err != nil {
		t.Fatal(err)
	}
	got := out[0].Data().([]float32)
	if got[0] != 0 || got[1] != 3 {
		t.Errorf("DEMO-CONFIRMED Relu([-Inf 3]) = %v, want [0 3]", got)
	}
}

func TestDemoAbsOfUnsigned(t *testing.T) {
	x := tensor.New(tensor.WithShape(2), tensor.WithBacking([]uint8{1, 200}))
	out, err := (&Abs{}).Apply([]tensor.Tensor{x})
	if err != nil {
		t.Fatalf("DEMO-CONFIRMED Abs of an accepted uint8 tensor is refused: %v", err)
	}
	got := out[0].Data().([]uint8)
	if got[0] != 1 || got[1] != 200 || out[0] == tensor.Tensor(x) {
		t.Errorf("DEMO-CONFIRMED Abs([1 200]) = %v (or the input itself was returned)", got)
	}
}

func TestDemoPReluOfScalar(t *testing.T) {
	x := tensor.New(tensor.FromScalar(float32(-2)))
	slope := tensor.New(tensor.FromScalar(float32(0.5)))
	out, err := (&PRelu{}).Apply([]tensor.Tensor{x, slope})
	if err != nil {
		t.Fatalf("DEMO-CONFIRMED PRelu of a rank-0 tensor is refused: %v", err)
	}
	if got, ok := out[0].Data().(float32); !ok || got != -1 {
		t.Errorf("PRelu(-2, slope 0.5) = %v, want -1", out[0].Data())
	}
}
