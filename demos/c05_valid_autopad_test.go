package opset13

// Demonstration for the open C05 finding D9: auto_pad=VALID must mean "no padding"; the library
// computes SAME_UPPER pads for it (and the existing TestSetPaddingWithAutoPad pins that result).

import (
	"testing"

	"gorgonia.org/tensor"
)

func TestDemoAutoPadValidMeansNoPadding(t *testing.T) {
	c := &Conv{autoPad: Valid, strides: []int{1, 1}, group: 1}
	x := tensor.New(tensor.WithShape(1, 1, 4, 4), tensor.WithBacking(make([]float32, 16)))
	w := tensor.New(tensor.WithShape(1, 1, 3, 3), tensor.WithBacking(make([]float32, 9)))
	out, err := c.Apply([]tensor.Tensor{x, w, nil})
	if err != nil {
		t.Fatalf("Apply: %v", err)
	}
	if s := out[0].Shape(); s[2] != 2 || s[3] != 2 {
		t.Errorf("DEMO-CONFIRMED Conv(auto_pad=VALID) of a 4x4 image with a 3x3 kernel gave spatial extents (%d,%d) with pads %v; VALID means no padding: (2,2)", s[2], s[3], c.pads)
	}
}
