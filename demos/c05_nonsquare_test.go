package opset13

// Demonstration for the C05 finding D7: the width loop of applyConv2D is bounded by the padded
// HEIGHT, so for inputs that are wider than high the last output columns are never computed.

import (
	"testing"

	"gorgonia.org/tensor"
)

func TestDemoConvNonSquareInput(t *testing.T) {
	c := &Conv{autoPad: NotSet, group: 1}
	// 1 x 1 x 2 x 5 image of ones, 1 x 1 x 2 x 2 kernel of ones: every output element is 4
	x := tensor.New(tensor.WithShape(1, 1, 2, 5), tensor.WithBacking([]float32{1, 1, 1, 1, 1, 1, 1, 1, 1, 1}))
	w := tensor.New(tensor.WithShape(1, 1, 2, 2), tensor.WithBacking([]float32{1, 1, 1, 1}))
	out, err := c.Apply([]tensor.Tensor{x, w, nil})
	if err != nil {
		t.Fatalf("Apply: %v", err)
	}
	got := out[0].Data().([]float32)
	for i, v := range got {
		if v != 4 {
			t.Errorf("DEMO-CONFIRMED Conv of a 2x5 image: output %v (shape %v): element %d is %v, want 4", got, out[0].Shape(), i, v)
			break
		}
	}
}
