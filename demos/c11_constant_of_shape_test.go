package opset13

// Demonstration for the C11 finding D22: ConstantOfShape.Init panics when its value attribute is a
// rank-0 tensor (no dims), although the tensor has exactly the one element ONNX requires.

import (
	"testing"

	"github.com/advancedclimatesystems/gonnx/onnx"
)

func TestDemoConstantOfShapeScalarValue(t *testing.T) {
	defer func() {
		if r := recover(); r != nil {
			t.Errorf("DEMO-CONFIRMED ConstantOfShape.Init with a rank-0 value tensor panicked: %v", r)
		}
	}()
	c := &ConstantOfShape{}
	n := &onnx.NodeProto{Attribute: []*onnx.AttributeProto{{Name: "value", Type: onnx.AttributeProto_TENSOR,
		T: &onnx.TensorProto{DataType: int32(onnx.TensorProto_FLOAT), Dims: []int64{}, FloatData: []float32{5}}}}}
	if err := c.Init(n); err != nil {
		t.Logf("Init returned an error (acceptable): %v", err)
	}
}
