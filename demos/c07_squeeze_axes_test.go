package opset13

// Demonstration for the C07 finding D15: Squeeze accepts out-of-range axes (they are silently
// ignored) instead of reporting an error.

import (
	"testing"

	"gorgonia.org/tensor"
)

func TestDemoSqueezeOutOfRangeAxes(t *testing.T) {
	for _, axes := range [][]int64{{5}, {-4}, {0, 7}} {
		s := &Squeeze{}
		in := tensor.New(tensor.WithShape(1, 2), tensor.WithBacking([]float32{1, 2}))
		ax := tensor.New(tensor.WithShape(len(axes)), tensor.WithBacking(axes))
		out, err := s.Apply([]tensor.Tensor{in, ax})
		if err == nil {
			t.Errorf("DEMO-CONFIRMED Squeeze of a (1,2) tensor with axes %v returned shape %v and no error", axes, out[0].Shape())
		}
	}
}
