#!/bin/bash
# Must-fail corpus: every mutant (a sed script applied to a scratch copy of /repo) has to make the
# check of its property report a VIOLATION; the neutral edits must not. Scratch copies live under
# /tmp and are removed on exit. Usage: selftest/run.sh [name-filter]
set -u
cd "$(dirname "$0")/.."
VERIF=$(pwd)
SCRATCH=$(mktemp -d /tmp/gvc-selftest-XXXXXX)
trap 'rm -rf "$SCRATCH"' EXIT
filter=${1:-}
fail=0; n=0
run_one() {
  local file=$1 kind=$2
  local name prop sedexpr target
  name=$(basename "$file" .mut)
  [ -n "$filter" ] && [[ "$name" != *"$filter"* ]] && return
  prop=$(sed -n 's/^# property: //p' "$file")
  target=$(sed -n 's/^# file: //p' "$file")
  rm -rf "$SCRATCH/repo"; mkdir -p "$SCRATCH/repo"
  rsync -a --exclude .git /repo/ "$SCRATCH/repo/"
  grep -v '^#' "$file" > "$SCRATCH/edit.sed"
  cp "$SCRATCH/repo/$target" "$SCRATCH/before"
  sed -i -f "$SCRATCH/edit.sed" "$SCRATCH/repo/$target"
  if cmp -s "$SCRATCH/before" "$SCRATCH/repo/$target"; then echo "BROKEN-MUTANT $name: edit did not change $target"; fail=1; return; fi
  if ! (cd "$SCRATCH/repo" && GOFLAGS=-mod=mod GOPROXY=off GOSUMDB=off GOTOOLCHAIN=local go build ./... >/dev/null 2>&1); then echo "BROKEN-MUTANT $name: does not compile"; fail=1; return; fi
  out=$(GVC_REPO="$SCRATCH/repo" GVC_EVIDENCE_DIR="$SCRATCH/evidence" GVC_REPLAY_DIR="$SCRATCH/replays" ./bin/gvc check -property "$prop" -tier quick 2>&1)
  code=$?
  n=$((n+1))
  if [ "$kind" = mutant ]; then
    if [ $code -eq 1 ] && grep -q "^VIOLATION property=$prop" <<<"$out"; then
      echo "ok   $name ($prop): $(grep -c '^VIOLATION' <<<"$out") violation(s): $(grep '^VIOLATION' <<<"$out" | head -1 | sed 's/.*obligation=//' | cut -c1-80)"
    else
      echo "MISS $name ($prop): exit=$code, no violation reported"; fail=1
    fi
  else
    if [ $code -eq 0 ]; then echo "ok   $name ($prop): neutral edit accepted"; else echo "FALSE-ALARM $name ($prop): exit=$code"; grep '^VIOLATION' <<<"$out" | head -3; fail=1; fi
  fi
}
for f in selftest/mutants/*.mut; do run_one "$f" mutant; done
for f in selftest/neutral/*.mut; do [ -e "$f" ] && run_one "$f" neutral; done
# seeded changes produced by independent sub-agents (seeded/<id>/patch.diff): each must be reported
for d in seeded/*/; do
  name=$(basename "$d")
  [ -f "$d/patch.diff" ] || continue
  [ -n "$filter" ] && [[ "$name" != *"$filter"* ]] && continue
  out=$(SKIP_DEMO=1 ./seeded/try.sh "$name" 2>&1 | grep -v conda)
  n=$((n+1))
  if grep -q "check-exit=1" <<<"$out" && ! grep -q "violations=0" <<<"$out"; then
    echo "ok   seeded $name: $(head -1 <<<"$out" | sed 's/.*violations=/violations=/'): $(sed -n 2p <<<"$out" | cut -c1-90)"
  else
    echo "MISS seeded $name: $out"; fail=1
  fi
done
echo "selftest: $n cases, fail=$fail"
exit $fail
