; Prelude: logic-level functions shared by all queries.
; Go integer division / remainder (truncation toward zero).
(define-fun godiv ((a Int) (b Int)) Int
  (ite (>= a 0) (ite (> b 0) (div a b) (- (div a (- b))))
                (ite (> b 0) (- (div (- a) b)) (div (- a) (- b)))))
(define-fun gomod ((a Int) (b Int)) Int
  (ite (>= a 0) (mod a b) (- (mod (- a) b))))
; bit casts: injective views of the IEEE bit patterns (values never inspected numerically here)
(declare-fun f32frombits (Int) (_ FloatingPoint 8 24))
(declare-fun f64frombits (Int) (_ FloatingPoint 11 53))
; product of n consecutive entries of an int array starting at off (number of elements of a shape)
(define-fun-rec prod ((a (Array Int Int)) (off Int) (n Int)) Int
  (ite (<= n 0) 1 (* (prod a off (- n 1)) (select a (+ off (- n 1))))))
