; Prelude: logic-level functions shared by all queries.
; Go integer division / remainder (truncation toward zero).
(define-fun godiv ((a Int) (b Int)) Int
  (ite (>= a 0) (ite (> b 0) (div a b) (- (div a (- b))))
                (ite (> b 0) (- (div (- a) b)) (div (- a) (- b)))))
(define-fun gomod ((a Int) (b Int)) Int
  (ite (>= a 0) (mod a b) (- (mod (- a) b))))
; bit casts: injective views of the IEEE bit patterns (values never inspected numerically here)
(declare-fun f32frombits (Int) (_ FloatingPoint 8 24))
(declare-fun f64frombits (Int) (_ FloatingPoint 11 53))
; product of n consecutive entries of an int array starting at off (number of elements of a shape).
; Uninterpreted; its defining equations are the axioms prod_base / prod_step in lemmas.smt2, which
; are instantiated at the ground prod-terms of each query (controlled unfolding).
(declare-fun prod ((Array Int Int) Int Int) Int)
; abstract content of an elementwise binary kernel: k_bin(kind, a, b); binkind recovers the kind
; (1 add, 2 sub, 3 mul, 4 div, 5 gt, 6 gte, 7 lt, 8 lte, 9 eq), binlhs / binrhs the operands
(declare-fun k_bin (Int Int Int) Int)
(declare-fun binkind (Int) Int)
(declare-fun binlhs (Int) Int)
(declare-fun binrhs (Int) Int)
(assert (forall ((c Int) (a Int) (b Int)) (! (and (= (binkind (k_bin c a b)) c) (= (binlhs (k_bin c a b)) a) (= (binrhs (k_bin c a b)) b)) :pattern ((k_bin c a b)))))
; marker used to request instances of lemmas about integer sequences (a, off, n) at chosen terms
(declare-fun seqmark ((Array Int Int) Int Int) Bool)
; axes: normax(v, r) is the ONNX normalisation of a possibly negative axis v against rank r
; (r = 0: identity). memb(d, off, n, r, x): x is one of the n normalised axes d[off..off+n).
; (memb is uninterpreted; defining rules memb_elim / memb_intro in lemmas.smt2, membw = witness)
; nkept(d, off, n, r, i): how many positions x in [0, i) are NOT such an axis (uninterpreted;
; defining equations nkept_base / nkept_step in lemmas.smt2).
(define-fun normax ((v Int) (r Int)) Int (ite (< v 0) (+ v r) v))
(declare-fun memb ((Array Int Int) Int Int Int Int) Bool)
(declare-fun membw ((Array Int Int) Int Int Int Int) Int)
(declare-fun nkept ((Array Int Int) Int Int Int Int) Int)
; nnot1(s, off, i): number of extents among s[off .. off+i) that are not 1 (uninterpreted;
; defining equations nnot1_base / nnot1_step in lemmas.smt2)
(declare-fun nnot1 ((Array Int Int) Int Int) Int)
; marker requesting the instance of strictly_increasing_upper for the sequence (a, off, n) and bound b
(declare-fun seqmarkb ((Array Int Int) Int Int Int) Bool)
; marker requesting the instance of nkept_cong for two axis lists at position i
(declare-fun nkcong ((Array Int Int) Int Int Int (Array Int Int) Int Int Int Int) Bool)
; marker requesting memb_ext for two axis lists of equal length n
(declare-fun membext ((Array Int Int) Int Int Int (Array Int Int) Int Int) Bool)
; sdiv: Go's integer division as an opaque function for use inside quantified clauses; its
; definition (sdiv a b) = (godiv a b) is supplied at ground terms only (lemma sdiv_def)
(declare-fun sdiv (Int Int) Int)
; smod: Go's remainder as an opaque function (definition supplied at ground terms: lemma smod_def)
(declare-fun smod (Int Int) Int)
; ---- C10: scalar float helpers used by the generic-element clauses
(define-fun fone32 () (_ FloatingPoint 8 24) ((_ to_fp 8 24) RNE 1.0))
(define-fun fone64 () (_ FloatingPoint 11 53) ((_ to_fp 11 53) RNE 1.0))
(define-fun fzero32 () (_ FloatingPoint 8 24) ((_ to_fp 8 24) RNE 0.0))
(define-fun fzero64 () (_ FloatingPoint 11 53) ((_ to_fp 11 53) RNE 0.0))
(define-fun fabs32 ((x (_ FloatingPoint 8 24))) (_ FloatingPoint 8 24) (fp.abs x))
(define-fun fabs64 ((x (_ FloatingPoint 11 53))) (_ FloatingPoint 11 53) (fp.abs x))
(define-fun fneg32 ((x (_ FloatingPoint 8 24))) (_ FloatingPoint 8 24) (fp.neg x))
(define-fun fneg64 ((x (_ FloatingPoint 11 53))) (_ FloatingPoint 11 53) (fp.neg x))
; relu_is(x, r): r is max(0, x) as IEEE-754 prescribes: NaN stays NaN, otherwise x if x > 0 else a zero
(define-fun relu_is32 ((x (_ FloatingPoint 8 24)) (r (_ FloatingPoint 8 24))) Bool
  (ite (fp.isNaN x) (fp.isNaN r) (fp.eq r (ite (fp.gt x fzero32) x fzero32))))
(define-fun relu_is64 ((x (_ FloatingPoint 11 53)) (r (_ FloatingPoint 11 53))) Bool
  (ite (fp.isNaN x) (fp.isNaN r) (fp.eq r (ite (fp.gt x fzero64) x fzero64))))
; IEEE arithmetic (round to nearest even), kept opaque: equal results are known only for equal
; operations on equal operands (see gvc/instr.go fpArith)
(declare-fun fadd32 ((_ FloatingPoint 8 24) (_ FloatingPoint 8 24)) (_ FloatingPoint 8 24))
(declare-fun fsub32 ((_ FloatingPoint 8 24) (_ FloatingPoint 8 24)) (_ FloatingPoint 8 24))
(declare-fun fmul32 ((_ FloatingPoint 8 24) (_ FloatingPoint 8 24)) (_ FloatingPoint 8 24))
(declare-fun fdiv32 ((_ FloatingPoint 8 24) (_ FloatingPoint 8 24)) (_ FloatingPoint 8 24))
(declare-fun fadd64 ((_ FloatingPoint 11 53) (_ FloatingPoint 11 53)) (_ FloatingPoint 11 53))
(declare-fun fsub64 ((_ FloatingPoint 11 53) (_ FloatingPoint 11 53)) (_ FloatingPoint 11 53))
(declare-fun fmul64 ((_ FloatingPoint 11 53) (_ FloatingPoint 11 53)) (_ FloatingPoint 11 53))
(declare-fun fdiv64 ((_ FloatingPoint 11 53) (_ FloatingPoint 11 53)) (_ FloatingPoint 11 53))
