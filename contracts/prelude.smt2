; Prelude: logic-level functions shared by all queries.
; Go integer division / remainder (truncation toward zero).
(define-fun godiv ((a Int) (b Int)) Int
  (ite (>= a 0) (ite (> b 0) (div a b) (- (div a (- b))))
                (ite (> b 0) (- (div (- a) b)) (div (- a) (- b)))))
(define-fun gomod ((a Int) (b Int)) Int
  (ite (>= a 0) (mod a b) (- (mod (- a) b))))
; bit casts: injective views of the IEEE bit patterns (values never inspected numerically here)
(declare-fun f32frombits (Int) (_ FloatingPoint 8 24))
(declare-fun f64frombits (Int) (_ FloatingPoint 11 53))
; product of n consecutive entries of an int array starting at off (number of elements of a shape).
; Uninterpreted; its defining equations are the axioms prod_base / prod_step in lemmas.smt2, which
; are instantiated at the ground prod-terms of each query (controlled unfolding).
(declare-fun prod ((Array Int Int) Int Int) Int)
