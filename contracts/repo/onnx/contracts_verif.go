//go:build verif

package onnx

// Contracts for package onnx (checked by /verif/gvc; comment-only file, build tag verif).

//@ spec le16(b []byte, j int) int = b[j] + 256*b[j+1]
//@ spec le32(b []byte, j int) int = b[j] + 256*b[j+1] + 65536*b[j+2] + 16777216*b[j+3]
//@ spec le64(b []byte, j int) int = le32(b, j) + 4294967296*le32(b, j+4)
//@ spec wrap8(v int) int = ite(v >= 128, v - 256, v)
//@ spec wrap16(v int) int = ite(v >= 32768, v - 65536, v)
//@ spec wrap32(v int) int = ite(v >= 2147483648, v - 4294967296, v)
//@ spec wrap64(v int) int = ite(v >= 9223372036854775808, v - 18446744073709551616, v)

//@ func ReadFloat32ArrayFromBytes
//@   tags C12,C18
//@   ensures exact: len(data) % 4 == 0 ==> err == nil && len(result) == len(data) / 4 &&
//@                  (forall k :: 0 <= k && k < len(result) ==> result[k] == f32frombits(le32(data, 4*k)))
//@   ensures ragged_is_error: len(data) % 4 != 0 ==> err != nil
//@   loop 1 invariant reads(buffer, data) && len(element) == 4 && fresh(element)
//@   loop 1 invariant values == nil || (fresh(values) && base(values) != base(element))
//@   loop 1 invariant rpos(buffer) == 4 * len(values) && rpos(buffer) <= len(data)
//@   loop 1 invariant forall k :: 0 <= k && k < len(values) ==> values[k] == f32frombits(le32(data, 4*k))

//@ func ReadFloat64ArrayFromBytes
//@   tags C12,C18
//@   ensures exact: len(data) % 8 == 0 ==> err == nil && len(result) == len(data) / 8 &&
//@                  (forall k :: 0 <= k && k < len(result) ==> result[k] == f64frombits(le64(data, 8*k)))
//@   ensures ragged_is_error: len(data) % 8 != 0 ==> err != nil
//@   loop 1 invariant reads(buffer, data) && len(element) == 8 && fresh(element)
//@   loop 1 invariant values == nil || (fresh(values) && base(values) != base(element))
//@   loop 1 invariant rpos(buffer) == 8 * len(values) && rpos(buffer) <= len(data)
//@   loop 1 invariant forall k :: 0 <= k && k < len(values) ==> values[k] == f64frombits(le64(data, 8*k))

//@ func ReadUint8ArrayFromBytes
//@   tags C12,C18
//@   ensures exact: len(data) % 1 == 0 ==> err == nil && len(result) == len(data) / 1 &&
//@                  (forall k :: 0 <= k && k < len(result) ==> result[k] == data[k])
//@   ensures ragged_is_error: len(data) % 1 != 0 ==> err != nil
//@   loop 1 invariant reads(buffer, data) && len(element) == 1 && fresh(element)
//@   loop 1 invariant values == nil || (fresh(values) && base(values) != base(element))
//@   loop 1 invariant rpos(buffer) == 1 * len(values) && rpos(buffer) <= len(data)
//@   loop 1 invariant forall k :: 0 <= k && k < len(values) ==> values[k] == data[k]

//@ func ReadInt8ArrayFromBytes
//@   tags C12,C18
//@   ensures exact: len(data) % 1 == 0 ==> err == nil && len(result) == len(data) / 1 &&
//@                  (forall k :: 0 <= k && k < len(result) ==> result[k] == wrap8(data[k]))
//@   ensures ragged_is_error: len(data) % 1 != 0 ==> err != nil
//@   loop 1 invariant reads(buffer, data) && len(element) == 1 && fresh(element)
//@   loop 1 invariant values == nil || (fresh(values) && base(values) != base(element))
//@   loop 1 invariant rpos(buffer) == 1 * len(values) && rpos(buffer) <= len(data)
//@   loop 1 invariant forall k :: 0 <= k && k < len(values) ==> values[k] == wrap8(data[k])

//@ func ReadUint16ArrayFromBytes
//@   tags C12,C18
//@   ensures exact: len(data) % 2 == 0 ==> err == nil && len(result) == len(data) / 2 &&
//@                  (forall k :: 0 <= k && k < len(result) ==> result[k] == le16(data, 2*k))
//@   ensures ragged_is_error: len(data) % 2 != 0 ==> err != nil
//@   loop 1 invariant reads(buffer, data) && len(element) == 2 && fresh(element)
//@   loop 1 invariant values == nil || (fresh(values) && base(values) != base(element))
//@   loop 1 invariant rpos(buffer) == 2 * len(values) && rpos(buffer) <= len(data)
//@   loop 1 invariant forall k :: 0 <= k && k < len(values) ==> values[k] == le16(data, 2*k)

//@ func ReadInt16ArrayFromBytes
//@   tags C12,C18
//@   ensures exact: len(data) % 2 == 0 ==> err == nil && len(result) == len(data) / 2 &&
//@                  (forall k :: 0 <= k && k < len(result) ==> result[k] == wrap16(le16(data, 2*k)))
//@   ensures ragged_is_error: len(data) % 2 != 0 ==> err != nil
//@   loop 1 invariant reads(buffer, data) && len(element) == 2 && fresh(element)
//@   loop 1 invariant values == nil || (fresh(values) && base(values) != base(element))
//@   loop 1 invariant rpos(buffer) == 2 * len(values) && rpos(buffer) <= len(data)
//@   loop 1 invariant forall k :: 0 <= k && k < len(values) ==> values[k] == wrap16(le16(data, 2*k))

//@ func ReadUint32ArrayFromBytes
//@   tags C12,C18
//@   ensures exact: len(data) % 4 == 0 ==> err == nil && len(result) == len(data) / 4 &&
//@                  (forall k :: 0 <= k && k < len(result) ==> result[k] == le32(data, 4*k))
//@   ensures ragged_is_error: len(data) % 4 != 0 ==> err != nil
//@   loop 1 invariant reads(buffer, data) && len(element) == 4 && fresh(element)
//@   loop 1 invariant values == nil || (fresh(values) && base(values) != base(element))
//@   loop 1 invariant rpos(buffer) == 4 * len(values) && rpos(buffer) <= len(data)
//@   loop 1 invariant forall k :: 0 <= k && k < len(values) ==> values[k] == le32(data, 4*k)

//@ func ReadInt32ArrayFromBytes
//@   tags C12,C18
//@   ensures exact: len(data) % 4 == 0 ==> err == nil && len(result) == len(data) / 4 &&
//@                  (forall k :: 0 <= k && k < len(result) ==> result[k] == wrap32(le32(data, 4*k)))
//@   ensures ragged_is_error: len(data) % 4 != 0 ==> err != nil
//@   loop 1 invariant reads(buffer, data) && len(element) == 4 && fresh(element)
//@   loop 1 invariant values == nil || (fresh(values) && base(values) != base(element))
//@   loop 1 invariant rpos(buffer) == 4 * len(values) && rpos(buffer) <= len(data)
//@   loop 1 invariant forall k :: 0 <= k && k < len(values) ==> values[k] == wrap32(le32(data, 4*k))

//@ func ReadUint64ArrayFromBytes
//@   tags C12,C18
//@   ensures exact: len(data) % 8 == 0 ==> err == nil && len(result) == len(data) / 8 &&
//@                  (forall k :: 0 <= k && k < len(result) ==> result[k] == le64(data, 8*k))
//@   ensures ragged_is_error: len(data) % 8 != 0 ==> err != nil
//@   loop 1 invariant reads(buffer, data) && len(element) == 8 && fresh(element)
//@   loop 1 invariant values == nil || (fresh(values) && base(values) != base(element))
//@   loop 1 invariant rpos(buffer) == 8 * len(values) && rpos(buffer) <= len(data)
//@   loop 1 invariant forall k :: 0 <= k && k < len(values) ==> values[k] == le64(data, 8*k)

//@ func ReadInt64ArrayFromBytes
//@   tags C12,C18
//@   ensures exact: len(data) % 8 == 0 ==> err == nil && len(result) == len(data) / 8 &&
//@                  (forall k :: 0 <= k && k < len(result) ==> result[k] == wrap64(le64(data, 8*k)))
//@   ensures ragged_is_error: len(data) % 8 != 0 ==> err != nil
//@   loop 1 invariant reads(buffer, data) && len(element) == 8 && fresh(element)
//@   loop 1 invariant values == nil || (fresh(values) && base(values) != base(element))
//@   loop 1 invariant rpos(buffer) == 8 * len(values) && rpos(buffer) <= len(data)
//@   loop 1 invariant forall k :: 0 <= k && k < len(values) ==> values[k] == wrap64(le64(data, 8*k))

//@ func ReadBoolArrayFromBytes
//@   tags C12,C18
//@   ensures len(result) == len(data) && (forall k :: 0 <= k && k < len(data) ==> (result[k] <==> data[k] > 0))
//@   ensures fresh(result)
//@   loop 1 invariant forall k :: 0 <= k && k < $i ==> (values[k] <==> data[k] > 0)

//@ func Int32ArrayToBoolArray
//@   tags C12,C18
//@   ensures len(result) == len(arr) && (forall k :: 0 <= k && k < len(arr) ==> (result[k] <==> arr[k] == 1))
//@   loop 1 invariant forall k :: 0 <= k && k < $i ==> (newArr[k] <==> arr[k] == 1)

//@ func Int32ArrayToInt8Array
//@   tags C12,C18
//@   ensures len(result) == len(arr) && (forall k :: 0 <= k && k < len(arr) ==> result[k] == (arr[k] + 128) % 256 + ite((arr[k] + 128) % 256 < 0, 256, 0) - 128)
//@   loop 1 invariant forall k :: 0 <= k && k < $i ==> newArr[k] == (arr[k] + 128) % 256 + ite((arr[k] + 128) % 256 < 0, 256, 0) - 128

//@ func Int32ArrayToUint8Array
//@   tags C12,C18
//@   ensures len(result) == len(arr) && (forall k :: 0 <= k && k < len(arr) ==> result[k] == arr[k] % 256 + ite(arr[k] % 256 < 0, 256, 0))
//@   loop 1 invariant forall k :: 0 <= k && k < $i ==> newArr[k] == arr[k] % 256 + ite(arr[k] % 256 < 0, 256, 0)

//@ func Int32ArrayToInt16Array
//@   tags C12,C18
//@   ensures len(result) == len(arr) && (forall k :: 0 <= k && k < len(arr) ==> result[k] == (arr[k] + 32768) % 65536 + ite((arr[k] + 32768) % 65536 < 0, 65536, 0) - 32768)
//@   loop 1 invariant forall k :: 0 <= k && k < $i ==> newArr[k] == (arr[k] + 32768) % 65536 + ite((arr[k] + 32768) % 65536 < 0, 65536, 0) - 32768

//@ func Int32ArrayToUint16Array
//@   tags C12,C18
//@   ensures len(result) == len(arr) && (forall k :: 0 <= k && k < len(arr) ==> result[k] == arr[k] % 65536 + ite(arr[k] % 65536 < 0, 65536, 0))
//@   loop 1 invariant forall k :: 0 <= k && k < $i ==> newArr[k] == arr[k] % 65536 + ite(arr[k] % 65536 < 0, 65536, 0)

//@ func Uint64ArrayToUint32Array
//@   tags C12,C18
//@   ensures len(result) == len(arr) && (forall k :: 0 <= k && k < len(arr) ==> result[k] == arr[k] % 4294967296 + ite(arr[k] % 4294967296 < 0, 4294967296, 0))
//@   loop 1 invariant forall k :: 0 <= k && k < $i ==> newArr[k] == arr[k] % 4294967296 + ite(arr[k] % 4294967296 < 0, 4294967296, 0)
