//go:build verif

package gonnx

// Contracts for package gonnx (checked by /verif/gvc; comment-only file, build tag verif).

// ---------------------------------------------------------------------------------------
// C13: the input signature

//@ spec gins(m *Model) []*onnx.ValueInfoProto = m.mp.Graph.Input
//@ spec fits(t tensor.Tensor, p *onnx.ValueInfoProto) bool = rank(t) == len(vdims(p)) &&
//@        (forall d :: 0 <= d && d < len(vdims(p)) ==> (dimv(vdims(p)[d]) != 0 ==> dimv(vdims(p)[d]) == dim(t, d)))
//@ spec shapefits(t tensor.Tensor, s onnx.Shape) bool = rank(t) == len(s) &&
//@        (forall d :: 0 <= d && d < len(s) ==> (!s[d].IsDynamic ==> s[d].Size == dim(t, d)))
//@ spec accepts(m *Model, inputs Tensors) bool = forall i :: 0 <= i && i < len(gins(m)) && lastnamed(gins(m), i, len(gins(m))) ==>
//@        (vname(gins(m)[i]) in m.parameters || (vname(gins(m)[i]) in inputs && fits(inputs[vname(gins(m)[i])], gins(m)[i])))

//@ func (*Model).validateShapes
//@   tags C13
//@   requires m != nil && m.mp != nil
//@   scope supplied_tensors_non_nil: forall name string :: name in inputTensors ==> inputTensors[name] != nil
//@   ensures accept_iff: m.mp.Graph != nil ==> ((err == nil) <==> accepts(m, inputTensors))
//@   ensures nograph: m.mp.Graph == nil ==> err == nil
//@   loop 1 invariant forall name string :: name in $visited ==> (name in $map &&
//@          (name in m.parameters || (name in inputTensors && shapefits(inputTensors[name], $map[name]))))
//@   loop 2 invariant len(shapeReceived) == len(shapeExpected) && shapeReceived == shapeof(tensor) &&
//@          (forall d :: 0 <= d && d < $i ==> (!shapeExpected[d].IsDynamic ==> shapeExpected[d].Size == shapeReceived[d]))
