//go:build verif

package opset13

// Contracts for package opset13 (checked by /verif/gvc; comment-only file, build tag verif).

// ---------------------------------------------------------------------------------------
// C15: every operator's input gate. The family contract applies to each (*T).ValidateInputs
// that has no contract of its own; `self` is the receiver.

//@ family (*).ValidateInputs
//@   tags C15
//@   requires self != nil
//@   ensures count_refused: !countok(asop(self), len(inputs)) ==> is_input_error(err, "count")
//@   ensures type_refused: countok(asop(self), len(inputs)) && !typesok(asop(self), inputs, len(inputs)) ==> is_input_error(err, "type")
//@   ensures accepted: countok(asop(self), len(inputs)) && typesok(asop(self), inputs, len(inputs)) ==> err == nil && len(result) == padlen(asop(self)) &&
//@          (forall k :: 0 <= k && k < len(inputs) ==> result[k] == inputs[k]) &&
//@          (forall k :: len(inputs) <= k && k < len(result) ==> result[k] == nil)

//@ func (*Concat).ValidateInputs
//@   tags C15
//@   requires c != nil
//@   modifies c
//@   ensures count_refused: !countok(asop(c), len(inputs)) ==> is_input_error(err, "count")
//@   ensures type_refused: countok(asop(c), len(inputs)) && !typesok(asop(c), inputs, len(inputs)) ==> is_input_error(err, "type")
//@   ensures accepted: countok(asop(c), len(inputs)) && typesok(asop(c), inputs, len(inputs)) ==> err == nil && len(result) == padlen(asop(c)) &&
//@          (forall k :: 0 <= k && k < len(inputs) ==> result[k] == inputs[k]) &&
//@          (forall k :: len(inputs) <= k && k < len(result) ==> result[k] == nil)
//@   ensures variadic: len(inputs) >= 1 ==> countok(asop(c), len(inputs)) && padlen(asop(c)) == len(inputs)
//@   loop 1 invariant 0 <= i && c.maxInputs == len(inputs) && len(c.inputTypeConstraints) == len(inputs) && fresh(c.inputTypeConstraints)

//@ func (*PRelu).ValidateInputs
//@   tags C15
//@   requires op != nil
//@   scope required_inputs_present: forall k :: 0 <= k && k < len(inputs) ==> inputs[k] != nil
//@   ensures count_refused: !countok(asop(op), len(inputs)) ==> is_input_error(err, "count")
//@   ensures type_refused: countok(asop(op), len(inputs)) && !typesok(asop(op), inputs, len(inputs)) ==> is_input_error(err, "type")
//@   ensures accepted: err == nil ==> countok(asop(op), len(inputs)) && typesok(asop(op), inputs, len(inputs)) && len(result) == 2 &&
//@          result[0] == inputs[0] && result[1] == inputs[1] && dtype(inputs[0]) == dtype(inputs[1])
//@   ensures same_dtype_accepted: countok(asop(op), len(inputs)) && typesok(asop(op), inputs, len(inputs)) && dtype(inputs[0]) == dtype(inputs[1]) ==> err == nil

// The constructors registered in operators13: every lookup builds a new operator object.
//@ family new*
//@   tags C15,C01,C18
//@   ensures result != nil && fresh(result) && isoperator(result)

//@ func GetOperator
//@   tags C15,C01,C18
//@   ensures known: operatorType in operators13 ==> err == nil && result != nil && fresh(result) && isoperator(result)
//@   ensures unknown: !(operatorType in operators13) ==> result == nil && errIs(err, ErrUnsupportedOperator)

// ---------------------------------------------------------------------------------------
// C02: operators never write to their input tensors (headers or contents), to package state or
// to anything but their own attribute state and the objects they create.

//@ family (*).Apply
//@   tags C02
//@   requires self != nil
//@   scope inputs_validated: forall k :: 0 <= k && k < len(inputs) ==> inputs[k] != nil
//@   modifies opstate(self)

//@ family (*).Init
//@   tags C02
//@   requires self != nil
//@   modifies opstate(self)
