//go:build verif

package ops

// Contracts for package ops (checked by /verif/gvc; comment-only file, build tag verif).

//@ func Abs
//@   ensures result >= 0 && (result == x || result == 0 - x)

//@ func AllInRange
//@   tags C07,C08,C09
//@   ensures result <==> (forall k :: 0 <= k && k < len(arr) ==> min <= arr[k] && arr[k] <= max)
//@   loop 1 invariant forall k :: 0 <= k && k < $i ==> min <= arr[k] && arr[k] <= max

//@ func HasDuplicates
//@   tags C07
//@   ensures result <==> (exists k :: 0 <= k && k + 1 < len(arr) && arr[k] == arr[k+1])
//@   loop 1 invariant len(arr) >= 1 && prev == arr[$i] && (forall k :: 0 <= k && k < $i ==> arr[k] != arr[k+1])

//@ func OffsetArrayIfNegative
//@   tags C07,C08
//@   modifies arr[*]
//@   ensures forall k :: 0 <= k && k < len(arr) ==> arr[k] == ite(old(arr[k]) < 0, old(arr[k]) + offset, old(arr[k]))
//@   loop 1 invariant forall k :: 0 <= k && k < $i ==> arr[k] == ite(old(arr[k]) < 0, old(arr[k]) + offset, old(arr[k]))
//@   loop 1 invariant forall k :: $i <= k && k < len(arr) ==> arr[k] == old(arr[k])

//@ func ConvertNegativeAxis
//@   ensures result == ite(axis < 0, rank + axis, axis)
