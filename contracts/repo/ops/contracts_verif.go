//go:build verif

package ops

// Contracts for package ops (checked by /verif/gvc; comment-only file, build tag verif).

//@ func Abs
//@   ensures result >= 0 && (result == x || result == 0 - x)

//@ func AllInRange
//@   tags C07,C08,C09
//@   ensures result <==> (forall k :: 0 <= k && k < len(arr) ==> min <= arr[k] && arr[k] <= max)
//@   loop 1 invariant forall k :: 0 <= k && k < $i ==> min <= arr[k] && arr[k] <= max

//@ func HasDuplicates
//@   tags C07
//@   ensures result <==> (exists k :: 0 <= k && k + 1 < len(arr) && arr[k] == arr[k+1])
//@   loop 1 invariant len(arr) >= 1 && prev == arr[$i] && (forall k :: 0 <= k && k < $i ==> arr[k] != arr[k+1])

//@ func OffsetArrayIfNegative
//@   tags C07,C08
//@   modifies arr[*]
//@   ensures forall k :: 0 <= k && k < len(arr) ==> arr[k] == ite(old(arr[k]) < 0, old(arr[k]) + offset, old(arr[k]))
//@   loop 1 invariant forall k :: 0 <= k && k < $i ==> arr[k] == ite(old(arr[k]) < 0, old(arr[k]) + offset, old(arr[k]))
//@   loop 1 invariant forall k :: $i <= k && k < len(arr) ==> arr[k] == old(arr[k])

//@ func ConvertNegativeAxis
//@   ensures result == ite(axis < 0, rank + axis, axis)

// ---------------------------------------------------------------------------------------
// C15: the generic input gate. opmin / opmax / ncons / allowed evaluate the real getter bodies
// of whatever operator type the value holds (closed world: the operators of this module).

//@ spec is_input_error(err error, kind string) bool = typeof(err) == tagof("*ops.InputError") && unbox(err, "*ops.InputError").kind == kind
//@ spec countok(op Operator, n int) bool = ite(opmin(op) == opmax(op), n == opmin(op), opmin(op) <= n && n <= opmax(op))
//@ spec padlen(op Operator) int = ite(opmin(op) == opmax(op), opmin(op), opmax(op))
//@ spec typesok(op Operator, inputs []tensor.Tensor, n int) bool = forall k :: 0 <= k && k < n && inputs[k] != nil ==> allowed(op, k, dtype(inputs[k]))

//@ func newTypeConstraint
//@   tags C15
//@   ensures result != nil && fresh(result) && (forall d dtype :: d in result <==> (exists j :: 0 <= j && j < len(allowedTypes) && allowedTypes[j] == d))
//@   loop 1 invariant typeConstraint != nil && fresh(typeConstraint) &&
//@          (forall d dtype :: d in typeConstraint <==> (exists j :: 0 <= j && j < $i && allowedTypes[j] == d))

//@ func padInputs
//@   tags C15
//@   ensures len(result) == ite(len(inputs) < length, length, len(inputs))
//@   ensures forall k :: 0 <= k && k < len(inputs) ==> result[k] == inputs[k]
//@   ensures forall k :: len(inputs) <= k && k < len(result) ==> result[k] == nil
//@   loop 1 invariant ((base(inputs) == base(inputs0) && off(inputs) == off(inputs0)) || fresh(inputs)) &&
//@          len(inputs) >= len(inputs0) && (len(inputs) == len(inputs0) || len(inputs) <= length) &&
//@          (forall k :: 0 <= k && k < len(inputs0) ==> inputs[k] == inputs0[k]) &&
//@          (forall k :: len(inputs0) <= k && k < len(inputs) ==> inputs[k] == nil)

//@ func checkNInputs
//@   tags C15
//@   requires isoperator(op)
//@   ensures (err == nil) <==> countok(op, len(inputs))
//@   ensures err != nil ==> is_input_error(err, "count")
//@   ensures err == nil ==> result0 == padlen(op)

//@ func checkInputTypes
//@   tags C15
//@   requires isoperator(op) && len(inputs) <= ncons(op)
//@   ensures (err == nil) <==> typesok(op, inputs, len(inputs))
//@   ensures err != nil ==> is_input_error(err, "type")
//@   loop 1 invariant typesok(op, inputs, $i)

//@ func ValidateInputs
//@   tags C15
//@   requires isoperator(op) && opmax(op) <= ncons(op)
//@   ensures count_refused: !countok(op, len(inputs)) ==> is_input_error(err, "count")
//@   ensures type_refused: countok(op, len(inputs)) && !typesok(op, inputs, len(inputs)) ==> is_input_error(err, "type")
//@   ensures accepted: countok(op, len(inputs)) && typesok(op, inputs, len(inputs)) ==> err == nil && len(result) == padlen(op) &&
//@          (forall k :: 0 <= k && k < len(inputs) ==> result[k] == inputs[k]) &&
//@          (forall k :: len(inputs) <= k && k < len(result) ==> result[k] == nil)

// ---------------------------------------------------------------------------------------
// The Operator interface as seen by Model.applyOp (assumed at the interface call; every
// implementation is checked against the corresponding family contract in package opset13).

//@ iface Operator.Init
//@   requires isoperator(self)
//@   modifies opstate(self)

//@ iface Operator.ValidateInputs
//@   requires isoperator(self)
//@   modifies opstate(self)
//@   ensures err == nil ==> len(result) >= len(p0) && (forall k :: 0 <= k && k < len(p0) ==> result[k] == p0[k]) &&
//@          (forall k :: len(p0) <= k && k < len(result) ==> result[k] == nil)

//@ iface Operator.Apply
//@   requires isoperator(self)
//@   modifies opstate(self)
//@   ensures err == nil ==> (forall k :: 0 <= k && k < len(result) ==> result[k] != nil)
