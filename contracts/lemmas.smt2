; Lemmas over prelude functions. Entries marked (axiom) are the defining equations of an
; uninterpreted prelude function. All other lemmas are proved in every run (induction hypothesis
; supplied explicitly). Both kinds are used through ground instances at the terms of a query.

(lemma prod_base (axiom)
  (vars (a (Array Int Int)) (off Int) (n Int))
  (hyp (<= n 0))
  (concl (= (prod a off n) 1))
  (pattern (prod a off n))
  (trigger prod))

(lemma prod_step (axiom)
  (vars (a (Array Int Int)) (off Int) (n Int))
  (hyp (> n 0))
  (concl (= (prod a off n) (* (prod a off (- n 1)) (select a (+ off (- n 1))))))
  (pattern (prod a off n))
  (trigger prod))

; the product of a shape only depends on its entries (extensionality)
(lemma prod_ext
  (vars (a (Array Int Int)) (offa Int) (b (Array Int Int)) (offb Int) (n Int))
  (induct n)
  (hyp (forall ((k Int)) (=> (and (<= 0 k) (< k n)) (= (select a (+ offa k)) (select b (+ offb k))))))
  (concl (= (prod a offa n) (prod b offb n)))
  (pattern (prod a offa n) (prod b offb n))
  (trigger prod))

; a product of entries that are all >= 1 is >= 1
(lemma prod_pos
  (vars (a (Array Int Int)) (off Int) (n Int))
  (induct n)
  (hyp (forall ((k Int)) (=> (and (<= 0 k) (< k n)) (>= (select a (+ off k)) 1))))
  (concl (>= (prod a off n) 1))
  (pattern (prod a off n))
  (trigger prod))

; a product of ones is one
(lemma prod_ones
  (vars (a (Array Int Int)) (off Int) (n Int))
  (induct n)
  (hyp (forall ((k Int)) (=> (and (<= 0 k) (< k n)) (= (select a (+ off k)) 1))))
  (concl (= (prod a off n) 1))
  (pattern (prod a off n))
  (trigger prod))

; a shape prefixed by ones has the same product (AddExtraDimsToTensor): a[offa .. offa+n) is
; (n-r) ones followed by b[offb .. offb+r)
(lemma prod_prepend_ones
  (vars (a (Array Int Int)) (offa Int) (n Int) (b (Array Int Int)) (offb Int) (r Int))
  (induct r (also n))
  (hyp (and (>= r 0) (>= n r)
            (forall ((k Int)) (=> (and (<= 0 k) (< k (- n r))) (= (select a (+ offa k)) 1)))
            (forall ((k Int)) (=> (and (<= 0 k) (< k r)) (= (select a (+ offa (- n r) k)) (select b (+ offb k)))))))
  (concl (= (prod a offa n) (prod b offb r)))
  (pattern (prod a offa n) (prod b offb r))
  (trigger prod))

; splitting a product: prod(a, off, n) * prod(a, off+n, m) = prod(a, off, n+m)
(lemma prod_split
  (vars (a (Array Int Int)) (offa Int) (n Int) (b (Array Int Int)) (offb Int) (m Int))
  (induct m)
  (hyp (and (= a b) (= offb (+ offa n)) (>= n 0) (>= m 0)))
  (concl (= (prod a offa (+ n m)) (* (prod a offa n) (prod b offb m))))
  (pattern (prod a offa n) (prod b offb m))
  (trigger prod))

; a strictly increasing integer sequence grows at least by one per step
(lemma strictly_increasing_bounds
  (vars (a (Array Int Int)) (off Int) (n Int))
  (induct n)
  (monotone)
  (hyp (forall ((k Int)) (=> (and (<= 0 k) (< k (- n 1))) (< (select a (+ off k)) (select a (+ off k 1))))))
  (concl (forall ((m Int)) (forall ((j Int)) (=> (and (<= 0 j) (<= j m) (< m n)) (>= (select a (+ off m)) (+ (select a (+ off j)) (- m j)))))))
  (pattern (seqmark a off n))
  (trigger seqmark))
