; Lemmas over prelude functions. Entries marked (axiom) are the defining equations of an
; uninterpreted prelude function. All other lemmas are proved in every run (induction hypothesis
; supplied explicitly). Both kinds are used through ground instances at the terms of a query.

(lemma prod_base (axiom)
  (vars (a (Array Int Int)) (off Int) (n Int))
  (hyp (<= n 0))
  (concl (= (prod a off n) 1))
  (pattern (prod a off n))
  (trigger prod))

(lemma prod_step (axiom)
  (vars (a (Array Int Int)) (off Int) (n Int))
  (hyp (> n 0))
  (concl (= (prod a off n) (* (prod a off (- n 1)) (select a (+ off (- n 1))))))
  (pattern (prod a off n))
  (trigger prod))

; the product of a shape only depends on its entries (extensionality)
(lemma prod_ext
  (vars (a (Array Int Int)) (offa Int) (b (Array Int Int)) (offb Int) (n Int))
  (induct n)
  (hyp (forall ((k Int)) (=> (and (<= 0 k) (< k n)) (= (select a (+ offa k)) (select b (+ offb k))))))
  (concl (= (prod a offa n) (prod b offb n)))
  (pattern (prod a offa n) (prod b offb n))
  (trigger prod))

; a product of entries that are all >= 1 is >= 1
(lemma prod_pos
  (vars (a (Array Int Int)) (off Int) (n Int))
  (induct n)
  (hyp (forall ((k Int)) (=> (and (<= 0 k) (< k n)) (>= (select a (+ off k)) 1))))
  (concl (>= (prod a off n) 1))
  (pattern (prod a off n))
  (trigger prod))

; a product of ones is one
(lemma prod_ones
  (vars (a (Array Int Int)) (off Int) (n Int))
  (induct n)
  (hyp (forall ((k Int)) (=> (and (<= 0 k) (< k n)) (= (select a (+ off k)) 1))))
  (concl (= (prod a off n) 1))
  (pattern (prod a off n))
  (trigger prod))

; a shape prefixed by ones has the same product (AddExtraDimsToTensor): a[offa .. offa+n) is
; (n-r) ones followed by b[offb .. offb+r)
(lemma prod_prepend_ones
  (vars (a (Array Int Int)) (offa Int) (n Int) (b (Array Int Int)) (offb Int) (r Int))
  (induct r (also n))
  (hyp (and (>= r 0) (>= n r)
            (forall ((k Int)) (=> (and (<= 0 k) (< k (- n r))) (= (select a (+ offa k)) 1)))
            (forall ((k Int)) (=> (and (<= 0 k) (< k r)) (= (select a (+ offa (- n r) k)) (select b (+ offb k)))))))
  (concl (= (prod a offa n) (prod b offb r)))
  (pattern (prod a offa n) (prod b offb r))
  (trigger prod))

; splitting a product: prod(a, off, n) * prod(a, off+n, m) = prod(a, off, n+m)
(lemma prod_split
  (vars (a (Array Int Int)) (offa Int) (n Int) (b (Array Int Int)) (offb Int) (m Int))
  (induct m)
  (hyp (and (= a b) (= offb (+ offa n)) (>= n 0) (>= m 0)))
  (concl (= (prod a offa (+ n m)) (* (prod a offa n) (prod b offb m))))
  (pattern (prod a offa n) (prod b offb m))
  (trigger prod))

; a strictly increasing integer sequence grows at least by one per step
(lemma strictly_increasing_bounds
  (vars (a (Array Int Int)) (off Int) (n Int))
  (induct n)
  (monotone)
  (hyp (forall ((k Int)) (=> (and (<= 0 k) (< k (- n 1))) (< (select a (+ off k)) (select a (+ off k 1))))))
  (concl (forall ((m Int)) (forall ((j Int)) (=> (and (<= 0 j) (<= j m) (< m n)) (>= (select a (+ off m)) (+ (select a (+ off j)) (- m j)))))))
  (pattern (seqmark a off n))
  (trigger seqmark))

; memb(d, off, n, r, x) <=> exists k in [0, n): normax(d[off+k], r) = x, in skolemised form:
; membw is the witness position (quantifier-free elimination rule) ...
(lemma memb_elim (axiom) (eager) (schematic x)
  (vars (d (Array Int Int)) (off Int) (n Int) (r Int) (x Int))
  (hyp (memb d off n r x))
  (concl (and (<= 0 (membw d off n r x)) (< (membw d off n r x) n) (= (normax (select d (+ off (membw d off n r x))) r) x)))
  (pattern (memb d off n r x))
  (trigger memb))

; ... and any position holding x establishes membership (introduction rule)
(lemma memb_intro (axiom) (eager) (schematic x)
  (vars (d (Array Int Int)) (off Int) (n Int) (r Int) (x Int))
  (hyp true)
  (concl (forall ((k Int)) (=> (and (<= 0 k) (< k n) (= (normax (select d (+ off k)) r) x)) (memb d off n r x))))
  (pattern (memb d off n r x))
  (trigger memb))

(lemma nkept_base (axiom)
  (vars (d (Array Int Int)) (off Int) (n Int) (r Int) (i Int))
  (hyp (<= i 0))
  (concl (= (nkept d off n r i) 0))
  (pattern (nkept d off n r i))
  (trigger nkept))

(lemma nkept_step (axiom)
  (vars (d (Array Int Int)) (off Int) (n Int) (r Int) (i Int))
  (hyp (> i 0))
  (concl (= (nkept d off n r i) (+ (nkept d off n r (- i 1)) (ite (memb d off n r (- i 1)) 0 1))))
  (pattern (nkept d off n r i))
  (trigger nkept))

; 0 <= nkept(i) <= i
(lemma nkept_bounds
  (vars (d (Array Int Int)) (off Int) (n Int) (r Int) (i Int))
  (induct i)
  (hyp (>= i 0))
  (concl (and (<= 0 (nkept d off n r i)) (<= (nkept d off n r i) i)))
  (pattern (nkept d off n r i))
  (trigger nkept))

; a kept position a below b is counted before b: nkept(a) < nkept(b); and nkept is monotone
(lemma nkept_strict
  (vars (d (Array Int Int)) (off Int) (n Int) (r Int) (a Int) (b Int))
  (induct b)
  (hyp (and (<= 0 a) (< a b)))
  (concl (and (<= (nkept d off n r a) (nkept d off n r b)) (=> (not (memb d off n r a)) (< (nkept d off n r a) (nkept d off n r b)))))
  (pattern (nkept d off n r a) (nkept d off n r b))
  (trigger nkept))

; nkept only depends on which positions are axes (instantiated on request: marker nkcong)
(lemma nkept_cong
  (vars (d (Array Int Int)) (off Int) (n Int) (r Int) (e (Array Int Int)) (offe Int) (m Int) (s Int) (i Int))
  (induct i)
  (hyp (forall ((x Int)) (=> (and (<= 0 x) (< x i)) (= (memb d off n r x) (memb e offe m s x)))))
  (concl (= (nkept d off n r i) (nkept e offe m s i)))
  (pattern (nkcong d off n r e offe m s i))
  (trigger nkcong))

; nnot1(s, off, i): how many of the extents s[off .. off+i) differ from 1
(lemma nnot1_base (axiom)
  (vars (s (Array Int Int)) (off Int) (i Int))
  (hyp (<= i 0))
  (concl (= (nnot1 s off i) 0))
  (pattern (nnot1 s off i))
  (trigger nnot1))

(lemma nnot1_step (axiom)
  (vars (s (Array Int Int)) (off Int) (i Int))
  (hyp (> i 0))
  (concl (= (nnot1 s off i) (+ (nnot1 s off (- i 1)) (ite (= (select s (+ off (- i 1))) 1) 0 1))))
  (pattern (nnot1 s off i))
  (trigger nnot1))

(lemma nnot1_bounds
  (vars (s (Array Int Int)) (off Int) (i Int))
  (induct i)
  (hyp (>= i 0))
  (concl (and (<= 0 (nnot1 s off i)) (<= (nnot1 s off i) i)))
  (pattern (nnot1 s off i))
  (trigger nnot1))

; when the axes are exactly the positions of extent 1, both counts agree
(lemma nkept_is_nnot1
  (vars (d (Array Int Int)) (off Int) (n Int) (r Int) (s (Array Int Int)) (soff Int) (i Int))
  (induct i)
  (hyp (forall ((x Int)) (=> (and (<= 0 x) (< x i)) (= (memb d off n r x) (= (select s (+ soff x)) 1)))))
  (concl (= (nkept d off n r i) (nnot1 s soff i)))
  (pattern (nkept d off n r i) (nnot1 s soff i))
  (trigger nkept))

; n strictly increasing integers below b: the m-th one is at most b - n + m
(lemma strictly_increasing_upper
  (vars (a (Array Int Int)) (off Int) (n Int) (b Int))
  (induct n (also b))
  (monotone)
  (hyp (and (forall ((k Int)) (=> (and (<= 0 k) (< k (- n 1))) (< (select a (+ off k)) (select a (+ off (+ k 1))))))
            (forall ((k Int)) (=> (and (<= 0 k) (< k n)) (< (select a (+ off k)) b)))))
  (concl (forall ((m Int)) (=> (and (<= 0 m) (< m n)) (<= (select a (+ off m)) (+ (- b n) m)))))
  (pattern (seqmarkb a off n b))
  (trigger seqmarkb))

; two axis lists that agree position by position after normalisation have the same members
(lemma memb_ext
  (vars (d (Array Int Int)) (off Int) (n Int) (r Int) (e (Array Int Int)) (offe Int) (s Int) (x Int))
  (hyp (forall ((k Int)) (=> (and (<= 0 k) (< k n)) (= (normax (select d (+ off k)) r) (normax (select e (+ offe k)) s)))))
  (concl (= (memb d off n r x) (memb e offe n s x)))
  (pattern (membext d off n r e offe s))
  (schematic x)
  (qpattern (memb d off n r x))
  (trigger membext))

(lemma sdiv_def (axiom) (eager)
  (vars (a Int) (b Int))
  (hyp true)
  (concl (= (sdiv a b) (godiv a b)))
  (pattern (sdiv a b))
  (trigger sdiv))

; quotient bounds for a positive divisor (the nonlinear facts the coverage arguments need)
(lemma sdiv_bounds
  (vars (a Int) (s Int))
  (hyp (>= s 1))
  (concl (and (=> (>= a 0) (and (<= (* (sdiv a s) s) a) (>= (sdiv a s) 0))) (=> (< a 0) (<= (sdiv a s) 0))))
  (pattern (sdiv a s))
  (trigger sdiv))

(lemma smod_def (axiom) (eager)
  (vars (a Int) (b Int))
  (hyp true)
  (concl (= (smod a b) (gomod a b)))
  (pattern (smod a b))
  (trigger smod))

; stepping by the modulus keeps a multiple a multiple
(lemma smod_step
  (vars (a Int) (s Int))
  (hyp (and (>= s 1) (>= a 0) (= (smod a s) 0)))
  (concl (= (smod (+ a s) s) 0))
  (pattern (smod a s))
  (trigger smod))

; membership in a list extended by one entry
(lemma memb_prefix_step (pred)
  (vars (d (Array Int Int)) (off Int) (m Int) (r Int) (x Int))
  (hyp (>= m 1))
  (concl (= (memb d off m r x) (or (memb d off (- m 1) r x) (= (normax (select d (+ off (- m 1))) r) x))))
  (pattern (memb d off m r x))
  (trigger memb))

(lemma memb_prefix_empty
  (vars (d (Array Int Int)) (off Int) (m Int) (r Int) (x Int))
  (hyp (<= m 0))
  (concl (not (memb d off m r x)))
  (pattern (memb d off m r x))
  (trigger memb))
