#!/bin/sh
# copies the contract files from /repo into the mirror /verif/contracts/repo
set -e
for f in contracts_verif.go onnx/contracts_verif.go ops/contracts_verif.go ops/opset13/contracts_verif.go; do
  if [ -f /repo/$f ]; then mkdir -p /verif/contracts/repo/$(dirname $f); cp /repo/$f /verif/contracts/repo/$f; fi
done
