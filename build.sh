#!/bin/sh
# Builds the gvc verification-condition generator offline (x/tools v0.29.0 from the module cache).
set -e
cd "$(dirname "$0")/gvc"
export GOFLAGS=-mod=mod GOPROXY=off GOSUMDB=off GOTOOLCHAIN=local CGO_ENABLED=0
mkdir -p ../bin
go build -o ../bin/gvc .
echo "built $(cd ..; pwd)/bin/gvc"
