package main

// Trusted models of gorgonia.org/tensor v0.9.24 entry points used by gonnx. They describe
// header-level behaviour (rank, dims, dtype, aliasing, which objects are written, when an error
// is returned, when the library panics) and an abstract content identity; numerical content of
// kernels is an uninterpreted function of the operands' contents.

import (
	"os"
	"fmt"
	"go/types"
	"strings"

	"golang.org/x/tools/go/ssa"
)

var binKinds = map[string]int{"add": 1, "sub": 2, "mul": 3, "div": 4, "gt": 5, "gte": 6, "lt": 7, "lte": 8, "eleq": 9, "maxbetween": 10}

// dimsOf describes a shape: rank and a function giving the extent of axis i (i may be a bound variable).
type dimsOf struct {
	rank string
	dim  func(i string) string
}

func (x *Exec) shapeOfTensor(st *State, t string) dimsOf {
	shp := x.tShp(st, t)
	h := x.comp(st, "E$int$0", elemSort(SInt))
	return dimsOf{rank: x.tRank(st, t), dim: func(i string) string { return sel2(h, shp, i) }}
}

func (x *Exec) shapeOfSlice(st *State, s Val) dimsOf {
	h := x.comp(st, "E$int$0", elemSort(SInt))
	return dimsOf{rank: s.slen(), dim: func(i string) string { return sel2(h, s.base(), add(s.off(), i)) }}
}

// newTensorObj allocates a tensor with the given shape/dtype/content. Facts about the fresh
// shape array are assumed directly (contents of unallocated references are unconstrained).
func (x *Exec) newTensorObj(fr *Frame, hint string, d dimsOf, dtype, cont string) string {
	st := fr.curSt
	t := x.newRef(st, hint)
	shp := x.newRef(st, hint+"_shape")
	buf := x.newRef(st, hint+"_buf")
	h := x.comp(st, "E$int$0", elemSort(SInt))
	rank := x.define(hint+"_rank", SInt, d.rank)
	x.assume(fr.curPC, fmt.Sprintf("(forall ((i Int)) (! (=> (and (<= 0 i) (< i %s)) (= (select (select %s %s) i) %s)) :pattern ((select (select %s %s) i))))",
		rank, h, shp, d.dim("i"), h, shp))
	x.ghostSet(st, "t$rank", t, rank)
	x.ghostSet(st, "t$shp", t, shp)
	x.ghostSet(st, "t$dtype", t, dtype)
	x.ghostSet(st, "t$buf", t, buf)
	x.ghostSet(st, "t$boff", t, "0")
	x.ghostSet(st, "t$blen", t, sx("prod", sel(h, shp), "0", rank))
	x.ghostSet(st, "t$cont", t, cont)
	x.ghostSet(st, "t$view", t, "0")
	x.ghostSet(st, "t$zeroed", t, "0")
	return t
}

func (x *Exec) denseIface(t string, it types.Type) Val {
	return Val{T: it, C: []string{x.denseTag(), t}}
}

func (x *Exec) nilIface(it types.Type) Val { return Val{T: it, C: []string{"0", "0"}} }

// resultTE builds a (Tensor, error) style result: on ok the tensor, else (nil, fresh error).
func (x *Exec) resultTE(fr *Frame, i *ssa.Call, okCond string, t string) Val {
	e := x.freshError(fr, "gerr")
	tp, ok := i.Type().(*types.Tuple)
	if !ok {
		return x.freshVal("res", i.Type())
	}
	okT := x.define("g_ok", SBool, okCond)
	var cs []string
	if isIface(tp.At(0).Type()) {
		cs = append(cs, ite(okT, x.denseTag(), "0"), ite(okT, t, "0"))
	} else {
		cs = append(cs, ite(okT, t, "0"))
	}
	cs = append(cs, ite(okT, "0", e.C[0]), ite(okT, "0", e.C[1]))
	return Val{T: tp, C: cs}
}

func (x *Exec) errOnly(fr *Frame, okCond string) Val {
	e := x.freshError(fr, "gerr")
	okT := x.define("g_ok", SBool, okCond)
	return Val{T: errorType(), C: []string{ite(okT, "0", e.C[0]), ite(okT, "0", e.C[1])}}
}

func (x *Exec) sameShape(st *State, a, b string) string {
	da, db := x.shapeOfTensor(st, a), x.shapeOfTensor(st, b)
	return and(eq(da.rank, db.rank), fmt.Sprintf("(forall ((i Int)) (=> (and (<= 0 i) (< i %s)) (= %s %s)))", da.rank, da.dim("i"), db.dim("i")))
}

func (x *Exec) ufn(name string, nargs int) string {
	args := make([]string, nargs)
	for k := range args {
		args[k] = SInt
	}
	x.uninterp(name, args, SInt)
	return name
}

func (x *Exec) nondetBool(hint string) string { return x.fresh(hint, SBool) }

// genElem: "generic element" view of abstract tensor contents. gen_f32(c) (gen_f64, gen_b) is the
// value that contents c hold at one fixed but arbitrary element position; the pointwise kernels
// of gorgonia (equal shapes, or one scalar operand) relate the generic element of their result
// to the generic elements of their operands. A clause proved about gen*(result) in terms of
// gen*(input), with gen*(input) unconstrained, therefore holds for every element.
func (x *Exec) genElem(sort, cont string) string {
	name := map[string]string{SF32: "gen_f32", SF64: "gen_f64", SBool: "gen_b"}[sort]
	x.uninterp(name, []string{SInt}, sort)
	return sx(name, cont)
}

var genFloatKinds = []struct {
	sort string
	typ  types.Type
	m    string // prefix of the scalar math library used by gorgonia for this element type
	one  string
	zero string
}{
	{SF32, types.Typ[types.Float32], "math32_", "((_ to_fp 8 24) RNE 1.0)", "((_ to_fp 8 24) RNE 0.0)"},
	{SF64, types.Typ[types.Float64], "math_", "((_ to_fp 11 53) RNE 1.0)", "((_ to_fp 11 53) RNE 0.0)"},
}

// isTensorVal: is the interface{} argument a tensor?
func (x *Exec) isTensorVal(v Val) string { return eq(v.tag(), x.denseTag()) }

// numericDtype / floatDtype / ordDtype classify dtype codes.
func dtypeIn(d string, names ...string) string {
	var alts []string
	for _, n := range names {
		alts = append(alts, eq(d, fmt.Sprint(dtypeCodes[n])))
	}
	return or(alts...)
}

func numericDtype(d string) string {
	return dtypeIn(d, "Int", "Int8", "Int16", "Int32", "Int64", "Uint", "Uint8", "Uint16", "Uint32", "Uint64", "Float32", "Float64", "Complex64", "Complex128")
}
func floatDtype(d string) string { return dtypeIn(d, "Float32", "Float64") }
func ordDtype(d string) string {
	return dtypeIn(d, "Int", "Int8", "Int16", "Int32", "Int64", "Uint", "Uint8", "Uint16", "Uint32", "Uint64", "Float32", "Float64", "String")
}

// scalarDtype: dtype code of a boxed Go scalar (by interface tag); 0 if not a scalar type.
func (x *Exec) scalarDtype(v Val) string {
	out := "0"
	for _, k := range []types.BasicKind{types.Bool, types.Int, types.Int8, types.Int16, types.Int32, types.Int64, types.Uint, types.Uint8,
		types.Uint16, types.Uint32, types.Uint64, types.Float32, types.Float64} {
		if _, ok := x.typeTags[typeKey(types.Typ[k])]; ok {
			out = ite(eq(v.tag(), x.typeTag(types.Typ[k])), fmt.Sprint(dtypeCodeOfBasic(types.Typ[k])), out)
		}
	}
	return out
}

// funcOpts inspects a ...FuncOpt argument: returns (reuse tensor ref or "0", asSameType bool term).
func (x *Exec) funcOpts(fr *Frame, opts Val) (reuse string, same string) {
	st := fr.curSt
	reuse, same = "0", "false"
	n, ok := litInt(opts.slen())
	if !ok {
		// unknown option list: anything may be reused
		return x.fresh("reuse", SInt), x.fresh("same", SBool)
	}
	et := opts.T.Underlying().(*types.Slice).Elem()
	h := x.comp(st, "E$"+typeKey(et)+"$0", elemSort(SInt))
	for k := int64(0); k < n; k++ {
		id := sel2(h, opts.base(), add(opts.off(), fmt.Sprint(k)))
		kind := x.ghostGet(st, "fo$kind", id)
		reuse = ite(eq(kind, "1"), x.ghostGet(st, "fo$tensor", id), reuse)
		same = or(same, eq(kind, "2"))
	}
	return x.define("fo_reuse", SInt, reuse), x.define("fo_same", SBool, same)
}

// writeTensorContent models a write of new content into tensor t (buffer and abstract content).
func (x *Exec) writeTensorContent(fr *Frame, t string, cont string, what string) {
	st := fr.curSt
	if x.topFrame != nil && x.probing == 0 && !x.noFrame {
		x.oblige(fr, "frame", "content-write", x.contractTags(x.topFrame), x.permitted(fr, "G$t$cont", t), fr.curPC, what+" (the buffer belongs to a tensor the function may not modify)", "")
	}
	x.recordStore("G$t$cont", t)
	x.ghostSet(st, "t$cont", t, cont)
}

func (x *Exec) writeTensorHeader(fr *Frame, t string, what string) {
	x.checkFrameWrite(fr, "G$t$rank", t, "", what)
}

func init() {
	// ---------------------------------------------------------------- function options
	reg("gorgonia.org/tensor.WithReuse", "option: write the result into the given tensor", func(x *Exec, fr *Frame, i *ssa.Call, fn *ssa.Function, args []Val) Val {
		st := fr.curSt
		id := x.newRef(st, "withreuse")
		x.ghostSet(st, "fo$kind", id, "1")
		x.ghostSet(st, "fo$tensor", id, tensorRef(args[0]))
		return Val{T: i.Type(), C: []string{id}}
	})
	reg("gorgonia.org/tensor.AsSameType", "option: comparison results keep the operand dtype", func(x *Exec, fr *Frame, i *ssa.Call, fn *ssa.Function, args []Val) Val {
		st := fr.curSt
		id := x.newRef(st, "assametype")
		x.ghostSet(st, "fo$kind", id, "2")
		return Val{T: i.Type(), C: []string{id}}
	})

	// ---------------------------------------------------------------- elementwise binary kernels
	binary := func(name string, cmp bool) intrinsic {
		return func(x *Exec, fr *Frame, i *ssa.Call, fn *ssa.Function, args []Val) Val {
			st := fr.curSt
			a, b := args[0], args[1]
			reuse, same := x.funcOpts(fr, args[2])
			ta, tb := x.isTensorVal(a), x.isTensorVal(b)
			ra, rb := a.pay(), b.pay()
			// the tensor operand that fixes shape and dtype
			main := x.define("bin_main", SInt, ite(ta, ra, rb))
			dt := x.tDtype(st, main)
			bothT := and(ta, tb)
			classOK := numericDtype(dt)
			if name == "maxbetween" {
				classOK = ordDtype(dt)
			}
			if cmp {
				classOK = ordDtype(dt)
				if name == "eleq" {
					classOK = "true"
				}
			}
			okShape := ite(bothT, and(x.sameShape(st, ra, rb), eq(x.tDtype(st, ra), x.tDtype(st, rb))),
				and(or(ta, tb), eq(ite(ta, x.scalarDtype(b), x.scalarDtype(a)), dt)))
			ok := and(okShape, classOK)
			if name == "div" {
				// integer division by zero is reported as an error by the library
				ok = and(ok, or(floatDtype(dt), x.nondetBool("div_nozero")))
			}
			contA := ite(ta, x.tCont(st, ra), add("1000000", ra))
			contB := ite(tb, x.tCont(st, rb), add("1000000", rb))
			cont := sx("k_bin", fmt.Sprint(binKinds[name]), contA, contB)
			rdt := dt
			if cmp {
				rdt = ite(same, dt, fmt.Sprint(dtypeCodes["Bool"]))
			}
			res := x.newTensorObj(fr, name, x.shapeOfTensor(st, main), rdt, cont)
			okT := x.define(name+"_ok", SBool, ok)
			// generic element: pointwise IEEE semantics of the float kernels (a Go scalar operand is
			// its own generic element)
			for _, fk := range genFloatKinds {
				ga := ite(ta, x.genElem(fk.sort, x.tCont(st, ra)), x.unbox(st, a, fk.typ).C[0])
				gb := ite(tb, x.genElem(fk.sort, x.tCont(st, rb)), x.unbox(st, b, fk.typ).C[0])
				isK := and(okT, eq(dt, fmt.Sprint(dtypeCodeOfBasic(fk.typ))))
				var r string
				switch name {
				case "add", "sub", "mul", "div":
					r = fpArith(name, fk.sort, ga, gb)
					x.assume(fr.curPC, implies(isK, eq(x.genElem(fk.sort, cont), r)))
					continue
				case "maxbetween":
					// MaxVS / MaxSV / VecMax kernels: the other operand replaces the tensor's element
					// when it is greater (a NaN element therefore stays)
					el, other := ite(ta, ga, gb), ite(ta, gb, ga)
					x.assume(fr.curPC, implies(isK, eq(x.genElem(fk.sort, cont), ite(sx("fp.gt", other, el), other, el))))
					continue
				case "gt", "lt":
					r = sx("fp."+name, ga, gb)
				case "gte":
					r = sx("fp.geq", ga, gb)
				case "lte":
					r = sx("fp.leq", ga, gb)
				case "eleq":
					r = sx("fp.eq", ga, gb)
				}
				if r != "" {
					x.assume(fr.curPC, implies(isK, ite(same, eq(x.genElem(fk.sort, cont), ite(r, fk.one, fk.zero)), eq(x.genElem(SBool, cont), r))))
				}
			}
			// WithReuse: the result is written into (and is) the reuse tensor
			useReuse := and(okT, not(eq(reuse, "0")))
			if reuse != "0" {
				x.oblige(fr, "frame", "reuse-write", x.contractTags(fr), or(not(useReuse), x.permitted(fr, "G$t$cont", reuse)), fr.curPC,
					"tensor."+name+" WithReuse writes into a tensor the function may not modify", "")
				old := x.tCont(st, reuse)
				x.ghostSet(st, "t$cont", reuse, ite(useReuse, cont, old))
			}
			out := x.define(name+"_res", SInt, ite(useReuse, reuse, res))
			return x.resultTE(fr, i, okT, out)
		}
	}
	for _, b := range []struct {
		key, name string
		cmp       bool
	}{{"Add", "add", false}, {"Sub", "sub", false}, {"Mul", "mul", false}, {"Div", "div", false},
		{"Gt", "gt", true}, {"Gte", "gte", true}, {"Lt", "lt", true}, {"Lte", "lte", true}, {"ElEq", "eleq", true}, {"MaxBetween", "maxbetween", false}} {
		reg("gorgonia.org/tensor."+b.key, "elementwise "+b.name+": operands must have equal shape and dtype (or one scalar of the tensor's dtype) else error; fresh result of that shape (comparisons: bool unless AsSameType); content = kernel(contents); WithReuse writes into the given tensor",
			binary(b.name, b.cmp))
	}

	// ---------------------------------------------------------------- elementwise unary kernels
	unary := func(name string, class func(string) string) intrinsic {
		return func(x *Exec, fr *Frame, i *ssa.Call, fn *ssa.Function, args []Val) Val {
			st := fr.curSt
			t := tensorRef(args[0])
			x.oblige(fr, "nopanic", "nil-tensor", x.contractTags(fr), not(eq(t, "0")), fr.curPC, "tensor."+name+" on a nil tensor", "")
			dt := x.tDtype(st, t)
			cont := sx(x.ufn("k_"+name, 1), x.tCont(st, t))
			res := x.newTensorObj(fr, name, x.shapeOfTensor(st, t), dt, cont)
			for _, fk := range genFloatKinds {
				g := x.genElem(fk.sort, x.tCont(st, t))
				var r string
				switch name {
				case "neg", "abs":
					r = sx("fp."+name, g)
				case "exp", "tanh":
					fnm := fk.m + strings.ToUpper(name[:1]) + name[1:]
					x.uninterp(fnm, []string{fk.sort}, fk.sort)
					r = sx(fnm, g)
				}
				if r != "" {
					x.assume(fr.curPC, implies(eq(dt, fmt.Sprint(dtypeCodeOfBasic(fk.typ))), eq(x.genElem(fk.sort, cont), r)))
				}
			}
			return x.resultTE(fr, i, class(dt), res)
		}
	}
	reg("gorgonia.org/tensor.Neg", "elementwise negation: numeric dtypes else error; fresh result, same shape/dtype", unary("neg", numericDtype))
	reg("gorgonia.org/tensor.Exp", "elementwise exp: float dtypes else error; fresh result, same shape/dtype", unary("exp", floatDtype))
	reg("gorgonia.org/tensor.Tanh", "elementwise tanh: float dtypes else error; fresh result, same shape/dtype", unary("tanh", floatDtype))
	reg("gorgonia.org/tensor.Abs", "elementwise abs: signed numeric dtypes else error; fresh result, same shape/dtype", unary("abs", func(d string) string {
		return dtypeIn(d, "Int", "Int8", "Int16", "Int32", "Int64", "Float32", "Float64")
	}))

	// ---------------------------------------------------------------- Clone / Reshape / T / Transpose
	clone := func(x *Exec, fr *Frame, i *ssa.Call, fn *ssa.Function, args []Val) Val {
		st := fr.curSt
		t := tensorRef(args[0])
		res := x.newTensorObj(fr, "clone", x.shapeOfTensor(st, t), x.tDtype(st, t), x.tCont(st, t))
		return Val{T: i.Type(), C: []string{x.denseTag(), res}}
	}
	reg("tensor.Tensor.Clone", "deep copy: fresh header and buffer, same shape, dtype and contents; never nil", clone)

	reshape := func(x *Exec, fr *Frame, i *ssa.Call, fn *ssa.Function, args []Val) Val {
		st := fr.curSt
		t := tensorRef(args[0])
		dims := args[1]
		d := x.shapeOfSlice(st, dims)
		h := x.comp(st, "E$int$0", elemSort(SInt))
		newTotal := sx("prod", sel(h, dims.base()), dims.off(), dims.slen())
		if n, ok := litInt(dims.slen()); ok && n >= 1 && n <= 4 {
			// a literal number of dims (variadic call site): state the product explicitly too
			var fs []string
			for k := 0; k < int(n); k++ {
				fs = append(fs, sel2(h, dims.base(), add(dims.off(), fmt.Sprint(k))))
			}
			explicit := fs[0]
			if n > 1 {
				explicit = sx("*", fs...)
			}
			nt := x.define("reshape_total", SInt, explicit)
			x.assume("true", eq(nt, newTotal)) // instance of the definition of prod (n unfoldings)
			newTotal = nt
		}
		// the element count of a tensor never changes after construction and always equals the
		// product of its current shape (invariant of dense tensors)
		oldTotal := x.tBlen(st, t)
		x.assume(fr.curPC, eq(oldTotal, sx("prod", sel(h, x.tShp(st, t)), "0", x.tRank(st, t))))
		sizeOK := x.define("reshape_sizeok", SBool, eq(newTotal, oldTotal))
		nonneg := fmt.Sprintf("(forall ((i Int)) (=> (and (<= 0 i) (< i %s)) (>= %s 0)))", d.rank, d.dim("i"))
		x.oblige(fr, "nopanic", "reshape-negative-dim", x.contractTags(fr), implies(sizeOK, nonneg), fr.curPC,
			"Reshape panics: negative dimension with matching element count", "")
		viewOK := or(eq(x.ghostGet(st, "t$view", t), "0"), x.nondetBool("view_contiguous"))
		okT := x.define("reshape_ok", SBool, and(sizeOK, viewOK))
		// header update (only on success)
		x.oblige(fr, "frame", "reshape-header", x.contractTags(fr), or(not(okT), eq(t, "0"), x.permitted(fr, "G$t$rank", t)), fr.curPC,
			"Reshape changes the header (shape) of a tensor the function may not modify", "")
		shp := x.newRef(st, "reshaped_shape")
		x.assume(fr.curPC, fmt.Sprintf("(forall ((i Int)) (! (=> (and (<= 0 i) (< i %s)) (= (select (select %s %s) i) %s)) :pattern ((select (select %s %s) i))))",
			d.rank, h, shp, d.dim("i"), h, shp))
		oldShp := x.tShp(st, t)
		oldRank := x.tRank(st, t)
		x.ghostSet(st, "t$rank", t, ite(okT, d.rank, oldRank))
		x.ghostSet(st, "t$shp", t, ite(okT, shp, oldShp))
		// the old shape slice goes back to gorgonia's pool: reading it later is a stale read
		x.ghostSet(st, "ints$dead", oldShp, ite(okT, "1", x.ghostGet(st, "ints$dead", oldShp)))
		x.reshapeSeen = true
		return x.errOnly(fr, okT)
	}
	reg("tensor.Tensor.Reshape", "error (header unchanged) unless product(dims) == size (and the tensor is not a non-contiguous view); panics on a negative dim when sizes match; else replaces the shape by a copy of dims (old shape slice is recycled), contents and flat order unchanged", reshape)
	reg("(*gorgonia.org/tensor.Dense).Reshape", "see Tensor.Reshape", reshape)

	reg("tensor.Tensor.T", "in-place (lazy) transposition of the header of the receiver", func(x *Exec, fr *Frame, i *ssa.Call, fn *ssa.Function, args []Val) Val {
		st := fr.curSt
		t := tensorRef(args[0])
		axes := args[1]
		rank := x.tRank(st, t)
		okT := x.define("T_ok", SBool, or(eq(axes.slen(), "0"), eq(axes.slen(), rank)))
		x.oblige(fr, "frame", "transpose-header", x.contractTags(fr), or(not(okT), x.permitted(fr, "G$t$rank", t)), fr.curPC,
			"T() changes the header of a tensor the function may not modify", "")
		shp := x.newRef(st, "T_shape")
		h := x.comp(st, "E$int$0", elemSort(SInt))
		oldShp := x.tShp(st, t)
		// default: reverse the axes; with explicit axes: permute (validity is the library's business)
		ah := h
		x.assume(fr.curPC, fmt.Sprintf("(forall ((i Int)) (! (=> (and (<= 0 i) (< i %s)) (= (select (select %s %s) i) (ite (= %s 0) (select (select %s %s) (- (- %s 1) i)) (select (select %s %s) (select (select %s %s) (+ %s i)))))) :pattern ((select (select %s %s) i))))",
			rank, h, shp, axes.slen(), h, oldShp, rank, h, oldShp, ah, axes.base(), axes.off(), h, shp))
		x.ghostSet(st, "t$shp", t, ite(okT, shp, oldShp))
		x.ghostSet(st, "t$cont", t, ite(okT, sx(x.ufn("k_transpose", 2), x.tCont(st, t), axes.base()), x.tCont(st, t)))
		return x.errOnly(fr, okT)
	})
	reg("gorgonia.org/tensor.Transpose", "fresh tensor with permuted axes; error unless the axes are a permutation of 0..rank-1; without axes: all axes reversed, no error", func(x *Exec, fr *Frame, i *ssa.Call, fn *ssa.Function, args []Val) Val {
		st := fr.curSt
		t := tensorRef(args[0])
		axes := args[1]
		rank := x.tRank(st, t)
		h := x.comp(st, "E$int$0", elemSort(SInt))
		ax := func(k string) string { return sel2(h, axes.base(), add(axes.off(), k)) }
		perm := and(eq(axes.slen(), rank),
			fmt.Sprintf("(forall ((i Int)) (=> (and (<= 0 i) (< i %s)) (and (<= 0 %s) (< %s %s))))", rank, ax("i"), ax("i"), rank),
			fmt.Sprintf("(forall ((i Int) (j Int)) (=> (and (<= 0 i) (< i j) (< j %s)) (not (= %s %s))))", rank, ax("i"), ax("j")))
		shp := x.tShp(st, t)
		if n, lit := litInt(axes.slen()); lit && n == 0 {
			// no axes: all axes reversed (AP.T); always succeeds
			d := dimsOf{rank: rank, dim: func(k string) string { return sel2(h, shp, sub(sub(rank, "1"), k)) }}
			res := x.newTensorObj(fr, "transpose", d, x.tDtype(st, t), sx(x.ufn("k_transpose", 2), x.tCont(st, t), "0"))
			return x.resultTE(fr, i, "true", res)
		}
		d := dimsOf{rank: rank, dim: func(k string) string { return sel2(h, shp, ax(k)) }}
		res := x.newTensorObj(fr, "transpose", d, x.tDtype(st, t), sx(x.ufn("k_transpose", 2), x.tCont(st, t), axes.base()))
		return x.resultTE(fr, i, perm, res)
	})

	// ---------------------------------------------------------------- Data / ScalarValue / Zero
	data := func(x *Exec, fr *Frame, i *ssa.Call, fn *ssa.Function, args []Val) Val {
		st := fr.curSt
		t := tensorRef(args[0])
		rank := x.tRank(st, t)
		dt := x.tDtype(st, t)
		box := x.newRef(st, "databox")
		tag := "0"
		for _, k := range []types.BasicKind{types.Bool, types.Int, types.Int8, types.Int16, types.Int32, types.Int64, types.Uint, types.Uint8,
			types.Uint16, types.Uint32, types.Uint64, types.Float32, types.Float64} {
			et := types.Typ[k]
			code := fmt.Sprint(dtypeCodeOfBasic(et))
			stt := types.NewSlice(et)
			// slice view for rank >= 1, scalar for rank 0
			x.store(st, Addr{Prefix: "B$" + typeKey(stt), Ref: box, T: stt}, Val{T: stt, C: []string{x.tBuf(st, t), x.tBoff(st, t), x.tBlen(st, t), x.tBlen(st, t)}})
			eh := x.comp(st, "E$"+typeKey(et)+"$0", elemSort(layout(et)[0].Sort))
			x.store(st, Addr{Prefix: "B$" + typeKey(et), Ref: box, T: et}, Val{T: et, C: []string{sel2(eh, x.tBuf(st, t), x.tBoff(st, t))}})
			tag = ite(eq(dt, code), ite(eq(rank, "0"), x.typeTag(et), x.typeTag(stt)), tag)
		}
		return Val{T: i.Type(), C: []string{x.define("data_tag", SInt, tag), box}}
	}
	reg("tensor.Tensor.Data", "rank 0: the scalar element; else the backing slice of the tensor's element type (aliases the buffer, len = number of elements)", data)
	reg("(*gorgonia.org/tensor.Dense).Data", "see Tensor.Data", data)
	reg("tensor.Tensor.ScalarValue", "the single element of a scalar-equivalent tensor, boxed", func(x *Exec, fr *Frame, i *ssa.Call, fn *ssa.Function, args []Val) Val {
		return data(x, fr, i, fn, args)
	})
	zero := func(x *Exec, fr *Frame, i *ssa.Call, fn *ssa.Function, args []Val) Val {
		t := tensorRef(args[0])
		x.writeTensorContent(fr, t, sx(x.ufn("k_zero", 1), x.tRank(fr.curSt, t)), "Zero() overwrites the contents of a tensor")
		return Val{T: types.NewTuple()}
	}
	reg("tensor.Tensor.Zero", "sets every element to the zero value (writes the tensor)", zero)
	reg("(*gorgonia.org/tensor.Dense).Zero", "sets every element to the zero value (writes the tensor)", zero)
	reg("(*gorgonia.org/tensor.AP).Shape", "shape slice aliasing the header", func(x *Exec, fr *Frame, i *ssa.Call, fn *ssa.Function, args []Val) Val {
		st := fr.curSt
		t := args[0].C[0]
		rank := x.tRank(st, t)
		return Val{T: i.Type(), C: []string{x.tShp(st, t), "0", rank, rank}}
	})
	reg("(*gorgonia.org/tensor.Dense).Dtype", "element type", func(x *Exec, fr *Frame, i *ssa.Call, fn *ssa.Function, args []Val) Val {
		return Val{T: i.Type(), C: []string{x.tDtype(fr.curSt, args[0].C[0])}}
	})
	reg("(gorgonia.org/tensor.Shape).Clone", "fresh copy of the shape", func(x *Exec, fr *Frame, i *ssa.Call, fn *ssa.Function, args []Val) Val {
		st := fr.curSt
		s := args[0]
		ref := x.newRef(st, "shapeclone")
		h := x.comp(st, "E$int$0", elemSort(SInt))
		x.assume(fr.curPC, fmt.Sprintf("(forall ((i Int)) (! (=> (and (<= 0 i) (< i %s)) (= (select (select %s %s) i) (select (select %s %s) (+ %s i)))) :pattern ((select (select %s %s) i))))",
			s.slen(), h, ref, h, s.base(), s.off(), h, ref))
		return Val{T: i.Type(), C: []string{ref, "0", s.slen(), s.slen()}} // BorrowInts(len) + copy: never nil
	})
	reg("(gorgonia.org/tensor.Shape).Eq", "gorgonia v0.9.24 semantics: two rank-0 shapes are equal; a vector (n) equals the column (n,1) and the row (1,n) with n > 1; otherwise same length and equal extents", func(x *Exec, fr *Frame, i *ssa.Call, fn *ssa.Function, args []Val) Val {
		st := fr.curSt
		a, b := args[0], args[1]
		da, db := x.shapeOfSlice(st, a), x.shapeOfSlice(st, b)
		plain := and(eq(da.rank, db.rank), fmt.Sprintf("(forall ((i Int)) (=> (and (<= 0 i) (< i %s)) (= %s %s)))", da.rank, da.dim("i"), db.dim("i")))
		col := func(d dimsOf) string { return and(eq(d.rank, "2"), eq(d.dim("1"), "1"), sx(">", d.dim("0"), "1")) }
		row := func(d dimsOf) string { return and(eq(d.rank, "2"), eq(d.dim("0"), "1"), sx(">", d.dim("1"), "1")) }
		vec21 := func(m, v dimsOf) string { // m has rank 2 and is a vector, v has rank 1
			return or(and(col(m), eq(m.dim("0"), v.dim("0"))), and(row(m), eq(m.dim("1"), v.dim("0"))))
		}
		isVec := func(d dimsOf) string { return or(col(d), row(d), eq(d.rank, "1")) }
		bothVec := and(isVec(da), isVec(db))
		c21 := and(bothVec, eq(da.rank, "2"), eq(db.rank, "1"))
		c12 := and(bothVec, eq(da.rank, "1"), eq(db.rank, "2"))
		r := x.define("shape_eq", SBool, ite(c21, vec21(da, db), ite(c12, vec21(db, da), plain)))
		return boolVal(r)
	})

	// ---------------------------------------------------------------- Repeat / Concat / MatMul / reductions
	reg("gorgonia.org/tensor.Repeat", "fresh tensor: extent(axis) multiplied by the repeat count, other extents kept; error if axis >= rank or count list malformed",
		func(x *Exec, fr *Frame, i *ssa.Call, fn *ssa.Function, args []Val) Val {
			st := fr.curSt
			t := tensorRef(args[0])
			axis := args[1].C[0]
			reps := args[2]
			h := x.comp(st, "E$int$0", elemSort(SInt))
			rank := x.tRank(st, t)
			shp := x.tShp(st, t)
			n := sel2(h, reps.base(), reps.off())
			d := dimsOf{rank: rank, dim: func(k string) string { return ite(eq(k, axis), mul(sel2(h, shp, k), n), sel2(h, shp, k)) }}
			ok := and(sx("<=", "0", axis), sx("<", axis, rank), eq(reps.slen(), "1"), sx(">=", n, "0"))
			x.oblige(fr, "nopanic", "repeat-axis", x.contractTags(fr), or(sx(">=", axis, "0"), sx(">=", rank, "0")), fr.curPC, "Repeat", "")
			res := x.newTensorObj(fr, "repeat", d, x.tDtype(st, t), sx(x.ufn("k_repeat", 3), x.tCont(st, t), axis, n))
			return x.resultTE(fr, i, ok, res)
		})
	reg("gorgonia.org/tensor.Concat", "fresh tensor: extents equal except along axis, where they add up; error if axis out of range, ranks or other extents differ, or dtypes differ",
		func(x *Exec, fr *Frame, i *ssa.Call, fn *ssa.Function, args []Val) Val {
			st := fr.curSt
			axis := args[0].C[0]
			t := tensorRef(args[1])
			others := args[2]
			et := others.T.Underlying().(*types.Slice).Elem()
			ph := x.comp(st, "E$"+typeKey(et)+"$1", elemSort(SInt))
			oth := func(k string) string { return sel2(ph, others.base(), add(others.off(), k)) }
			h := x.comp(st, "E$int$0", elemSort(SInt))
			rank := x.tRank(st, t)
			shp := x.tShp(st, t)
			x.uninterp("concat_sum", []string{SInt, SInt, SInt, SInt}, SInt)
			total := sx("concat_sum", others.base(), others.off(), others.slen(), axis)
			if n, ok := litInt(others.slen()); ok && n >= 0 && n <= 4 {
				// a literal number of further operands (variadic call site): the sum is explicit
				var terms []string
				for k := 0; k < int(n); k++ {
					terms = append(terms, sel2(h, x.tShp(st, oth(fmt.Sprint(k))), axis))
				}
				switch len(terms) {
				case 0:
					total = "0"
				case 1:
					total = terms[0]
				default:
					total = sx("+", terms...)
				}
				total = x.define("concat_extra", SInt, total)
			}
			d := dimsOf{rank: rank, dim: func(k string) string { return ite(eq(k, axis), add(sel2(h, shp, k), total), sel2(h, shp, k)) }}
			compat := fmt.Sprintf("(forall ((m Int)) (=> (and (<= 0 m) (< m %s)) (and (= %s %s) (= %s %s) (forall ((i Int)) (=> (and (<= 0 i) (< i %s) (not (= i %s))) (= (select (select %s %s) i) (select (select %s %s) i)))))))",
				others.slen(), x.tRank(st, oth("m")), rank, x.tDtype(st, oth("m")), x.tDtype(st, t), rank, axis, h, x.tShp(st, oth("m")), h, shp)
			ok := and(sx("<=", "0", axis), sx("<", axis, rank), compat)
			res := x.newTensorObj(fr, "concat", d, x.tDtype(st, t), sx(x.ufn("k_concat", 3), x.tCont(st, t), others.base(), axis))
			x.assume("true", sx(">=", total, "0"))
			return x.resultTE(fr, i, ok, res)
		})
	reg("gorgonia.org/tensor.MatMul", "both operands rank 2 with matching inner extents and equal float dtype else error; fresh (M,N) result (or the WithReuse tensor)",
		func(x *Exec, fr *Frame, i *ssa.Call, fn *ssa.Function, args []Val) Val {
			st := fr.curSt
			a, b := tensorRef(args[0]), tensorRef(args[1])
			reuse, _ := x.funcOpts(fr, args[2])
			da, db := x.shapeOfTensor(st, a), x.shapeOfTensor(st, b)
			ok := and(eq(da.rank, "2"), eq(db.rank, "2"), eq(da.dim("1"), db.dim("0")), eq(x.tDtype(st, a), x.tDtype(st, b)), floatDtype(x.tDtype(st, a)))
			d := dimsOf{rank: "2", dim: func(k string) string { return ite(eq(k, "0"), da.dim("0"), db.dim("1")) }}
			cont := sx(x.ufn("k_matmul", 2), x.tCont(st, a), x.tCont(st, b))
			res := x.newTensorObj(fr, "matmul", d, x.tDtype(st, a), cont)
			okT := x.define("matmul_ok", SBool, ok)
			useReuse := and(okT, not(eq(reuse, "0")))
			if reuse != "0" {
				x.oblige(fr, "frame", "reuse-write", x.contractTags(fr), or(not(useReuse), x.permitted(fr, "G$t$cont", reuse)), fr.curPC,
					"tensor.MatMul WithReuse writes into a tensor the function may not modify", "")
				x.ghostSet(st, "t$cont", reuse, ite(useReuse, cont, x.tCont(st, reuse)))
			}
			return x.resultTE(fr, i, okT, x.define("matmul_res", SInt, ite(useReuse, reuse, res)))
		})
	reduce := func(name string, argmax bool) intrinsic {
		return func(x *Exec, fr *Frame, i *ssa.Call, fn *ssa.Function, args []Val) Val {
			st := fr.curSt
			t := tensorRef(args[0])
			rank := x.tRank(st, t)
			shp := x.tShp(st, t)
			h := x.comp(st, "E$int$0", elemSort(SInt))
			var d dimsOf
			var ok string
			dt := x.tDtype(st, t)
			if argmax {
				axis := args[1].C[0]
				// axis removed
				// gorgonia: axis >= rank is an error; axis == -1 (AllAxes) is the flat argmax, a rank-0
				// result; anything below -1 indexes the shape with a negative number (panic)
				x.oblige(fr, "nopanic", "argmax-negative-axis", x.contractTags(fr), sx(">=", axis, "(- 1)"), fr.curPC, "tensor.Argmax with an axis below -1", "")
				d = dimsOf{rank: ite(eq(axis, "(- 1)"), "0", sub(rank, "1")), dim: func(k string) string { return sel2(h, shp, ite(sx("<", k, axis), k, add(k, "1"))) }}
				ok = sx("<", axis, rank)
				dt = fmt.Sprint(dtypeCodes["Int"])
			} else {
				axes := args[1]
				x.uninterp("reduced_rank", []string{SInt, SInt, SInt, SInt}, SInt)
				x.uninterp("reduced_dim", []string{SInt, SInt, SInt, SInt, SInt}, SInt)
				// no axes: everything reduced (rank 0). Otherwise the listed axes are removed.
				rr := ite(eq(axes.slen(), "0"), "0", sx("reduced_rank", rank, axes.base(), axes.off(), axes.slen()))
				d = dimsOf{rank: rr, dim: func(k string) string { return sx("reduced_dim", shp, axes.base(), axes.off(), axes.slen(), k) }}
				ok = x.nondetBool(name + "_ok")
				x.assume("true", and(sx("<=", "0", rr), sx("<=", rr, rank)))
				// listed axes that are pairwise distinct and in range are exactly the ones removed: the
				// remaining extents keep their order (position i moves to the number of kept positions below it)
				A, off, n := sel(h, axes.base()), axes.off(), axes.slen()
				distinct := fmt.Sprintf("(forall ((a Int)) (forall ((b Int)) (=> (and (<= 0 a) (< a b) (< b %s)) (not (= (select %s (+ %s a)) (select %s (+ %s b)))))))", n, A, off, A, off)
				inrange := fmt.Sprintf("(forall ((k Int)) (=> (and (<= 0 k) (< k %s)) (and (<= 0 (select %s (+ %s k))) (< (select %s (+ %s k)) %s))))", n, A, off, A, off, rank)
				nk := func(i string) string { return sx("nkept", A, off, n, "0", i) }
				kept := fmt.Sprintf("(forall ((i Int)) (! (=> (and (<= 0 i) (< i %s) (not (memb %s %s %s 0 i))) (= %s (select (select %s %s) i))) :pattern ((memb %s %s %s 0 i))))",
					rank, A, off, n, d.dim(nk("i")), h, shp, A, off, n)
				x.assume("true", implies(and(sx(">", n, "0"), distinct, inrange), and(eq(rr, nk(rank)), kept)))
				if os.Getenv("GVC_NO_REDUCE_SORT") == "" {
					// gorgonia sorts the axis list it is given in place
					defer func() {
						if h2, okk := intrinsics["sort.Ints"]; okk {
							h2(x, fr, i, fn, []Val{axes})
						}
					}()
				}
			}
			res := x.newTensorObj(fr, name, d, dt, sx(x.ufn("k_"+name, 2), x.tCont(st, t), args[1].C[0]))
			return x.resultTE(fr, i, ok, res)
		}
	}
	reg("gorgonia.org/tensor.Sum", "reduction over the listed axes (all when none): fresh tensor of the reduced shape", reduce("sum", false))
	reg("(*gorgonia.org/tensor.Dense).Max", "reduction over the listed axes (all when none): fresh tensor of the reduced shape", reduce("max", false))
	reg("(*gorgonia.org/tensor.Dense).Min", "reduction over the listed axes (all when none): fresh tensor of the reduced shape", reduce("min", false))
	reg("gorgonia.org/tensor.Argmax", "index of the first maximum along axis: fresh int tensor with that axis removed; axis >= rank is an error, axis == -1 means all axes (rank-0 result), axis < -1 panics", reduce("argmax", true))
	softmax := func(name string) intrinsic {
		return func(x *Exec, fr *Frame, i *ssa.Call, fn *ssa.Function, args []Val) Val {
			st := fr.curSt
			t := tensorRef(args[0])
			axis := args[1].C[0]
			res := x.newTensorObj(fr, name, x.shapeOfTensor(st, t), x.tDtype(st, t), sx(x.ufn("k_"+name, 2), x.tCont(st, t), axis))
			ok := and(floatDtype(x.tDtype(st, t)), sx("<", axis, x.tRank(st, t)), x.nondetBool(name+"_ok"))
			return x.resultTE(fr, i, ok, res)
		}
	}
	reg("gorgonia.org/tensor.SoftMax", "softmax along axis: fresh tensor, same shape and dtype; float dtypes only", softmax("softmax"))
	reg("gorgonia.org/tensor.LogSoftMax", "log-softmax along axis: fresh tensor, same shape and dtype; float dtypes only", softmax("logsoftmax"))

	// ---------------------------------------------------------------- Apply / At / SetAt / iterators / Slice
	reg("tensor.Tensor.Apply", "applies a scalar function elementwise: fresh result of the same shape and dtype, or written into the WithReuse tensor; error if the function's type does not match the dtype",
		func(x *Exec, fr *Frame, i *ssa.Call, fn *ssa.Function, args []Val) Val {
			st := fr.curSt
			t := tensorRef(args[0])
			f := args[1]
			reuse, _ := x.funcOpts(fr, args[2])
			cont := sx(x.ufn("k_apply", 2), x.tCont(st, t), f.pay())
			okCond := x.nondetBool("apply_typeok")
			if id, ok := litInt(f.pay()); ok && id >= 1 && int(id) <= len(x.funcByID) {
				// a known scalar function: the call succeeds iff its parameter type is the tensor's
				// element type (no options), and the generic element of the result is the function
				// applied to the generic element of the operand (its body is executed symbolically)
				g := x.funcByID[id-1]
				sig := g.Signature
				if sig.Params().Len() == 1 && sig.Results().Len() == 1 && g.Blocks != nil && !hasLoops(g) && x.inModule(g) {
					if pb, isB := sig.Params().At(0).Type().Underlying().(*types.Basic); isB && types.Identical(sig.Params().At(0).Type(), sig.Results().At(0).Type()) {
						srt := layout(pb)[0].Sort
						if srt == SF32 || srt == SF64 || srt == SBool {
							typeOK := eq(x.tDtype(st, t), fmt.Sprint(dtypeCodeOfBasic(pb)))
							if reuse == "0" {
								okCond = typeOK
							} else {
								okCond = and(typeOK, okCond)
							}
							arg := Val{T: sig.Params().At(0).Type(), C: []string{x.genElem(srt, x.tCont(st, t))}}
							x.inlined[funcKey(g)] = true
							r := x.inlineCall(fr, g, []Val{arg}, nil)
							st = fr.curSt
							x.assume(fr.curPC, implies(typeOK, eq(x.genElem(srt, cont), r.C[0])))
						}
					}
				}
			}
			res := x.newTensorObj(fr, "apply", x.shapeOfTensor(st, t), x.tDtype(st, t), cont)
			st = fr.curSt
			okT := x.define("apply_ok", SBool, okCond)
			useReuse := and(okT, not(eq(reuse, "0")))
			if reuse != "0" {
				x.oblige(fr, "frame", "reuse-write", x.contractTags(fr), or(not(useReuse), x.permitted(fr, "G$t$cont", reuse)), fr.curPC,
					"Apply WithReuse writes into a tensor the function may not modify", "")
				x.ghostSet(st, "t$cont", reuse, ite(useReuse, cont, x.tCont(st, reuse)))
			}
			return x.resultTE(fr, i, okT, x.define("apply_res", SInt, ite(useReuse, reuse, res)))
		})
	reg("tensor.Tensor.At", "element at the given coordinates (boxed); error if the coordinate count or a coordinate is out of range",
		func(x *Exec, fr *Frame, i *ssa.Call, fn *ssa.Function, args []Val) Val {
			st := fr.curSt
			t := tensorRef(args[0])
			coords := args[1]
			cit := x.ghostGet(st, "coord$it", coords.base())
			ctn := x.ghostGet(st, "it$tensor", cit)
			fromIter := and(not(eq(cit, "0")), x.sameShape(st, t, ctn), sx("<", x.ghostGet(st, "it$pos", cit), x.tBlen(st, ctn)))
			ok := and(eq(coords.slen(), x.tRank(st, t)), or(fromIter, x.nondetBool("at_inrange")))
			box := x.newRef(st, "atbox")
			dt := x.tDtype(st, t)
			tag := "0"
			for _, k := range []types.BasicKind{types.Bool, types.Int, types.Int8, types.Int16, types.Int32, types.Int64, types.Uint, types.Uint8,
				types.Uint16, types.Uint32, types.Uint64, types.Float32, types.Float64} {
				tag = ite(eq(dt, fmt.Sprint(dtypeCodeOfBasic(types.Typ[k]))), x.typeTag(types.Typ[k]), tag)
			}
			okT := x.define("at_ok", SBool, ok)
			e := x.freshError(fr, "aterr")
			return Val{T: i.Type(), C: []string{ite(okT, tag, "0"), ite(okT, box, "0"), ite(okT, "0", e.C[0]), ite(okT, "0", e.C[1])}}
		})
	setAt := func(x *Exec, fr *Frame, i *ssa.Call, fn *ssa.Function, args []Val) Val {
		st := fr.curSt
		t := tensorRef(args[0])
		coords := args[2]
		cit := x.ghostGet(st, "coord$it", coords.base())
		ctn := x.ghostGet(st, "it$tensor", cit)
		fromIter := and(not(eq(cit, "0")), x.sameShape(st, t, ctn), sx("<", x.ghostGet(st, "it$pos", cit), x.tBlen(st, ctn)))
		typeOK := eq(x.scalarDtype(args[1]), x.tDtype(st, t))
		okT := x.define("setat_ok", SBool, and(typeOK, or(fromIter, x.nondetBool("setat_inrange"))))
		x.oblige(fr, "frame", "setat-write", x.contractTags(fr), or(not(okT), x.permitted(fr, "G$t$cont", t)), fr.curPC,
			"SetAt writes an element of a tensor the function may not modify", "")
		x.ghostSet(st, "t$cont", t, ite(okT, sx(x.ufn("k_setat", 3), x.tCont(st, t), args[1].pay(), args[2].base()), x.tCont(st, t)))
		return x.errOnly(fr, okT)
	}
	reg("tensor.Tensor.SetAt", "writes one element (error on bad coordinates or value type)", setAt)
	reg("(*gorgonia.org/tensor.Dense).SetAt", "writes one element (error on bad coordinates or value type)", setAt)
	reg("tensor.Tensor.Iterator", "row-major iterator over the tensor's coordinates", func(x *Exec, fr *Frame, i *ssa.Call, fn *ssa.Function, args []Val) Val {
		st := fr.curSt
		it := x.newRef(st, "iterator")
		x.ghostSet(st, "it$tensor", it, tensorRef(args[0]))
		x.ghostSet(st, "it$pos", it, "0")
		return Val{T: i.Type(), C: []string{x.typeTagName("$flat_iterator"), it}}
	})
	reg("tensor.Iterator.Reset", "rewinds the iterator", func(x *Exec, fr *Frame, i *ssa.Call, fn *ssa.Function, args []Val) Val {
		x.ghostSet(fr.curSt, "it$pos", args[0].pay(), "0")
		return Val{T: types.NewTuple()}
	})
	reg("tensor.Iterator.Done", "true when every coordinate has been visited", func(x *Exec, fr *Frame, i *ssa.Call, fn *ssa.Function, args []Val) Val {
		st := fr.curSt
		it := args[0].pay()
		t := x.ghostGet(st, "it$tensor", it)
		return boolVal(x.define("it_done", SBool, sx(">=", x.ghostGet(st, "it$pos", it), x.tBlen(st, t))))
	})
	reg("tensor.Iterator.Next", "advances the iterator; error when exhausted", func(x *Exec, fr *Frame, i *ssa.Call, fn *ssa.Function, args []Val) Val {
		st := fr.curSt
		it := args[0].pay()
		pos := x.ghostGet(st, "it$pos", it)
		t := x.ghostGet(st, "it$tensor", it)
		okT := x.define("next_ok", SBool, sx("<", pos, x.tBlen(st, t)))
		x.ghostSet(st, "it$pos", it, add(pos, "1"))
		e := x.freshError(fr, "iterr")
		return Val{T: i.Type(), C: []string{pos, ite(okT, "0", e.C[0]), ite(okT, "0", e.C[1])}}
	})
	reg("tensor.Iterator.Coord", "coordinates of the current position (slice owned by the iterator)", func(x *Exec, fr *Frame, i *ssa.Call, fn *ssa.Function, args []Val) Val {
		st := fr.curSt
		it := args[0].pay()
		t := x.ghostGet(st, "it$tensor", it)
		ref := x.newRef(st, "coord")
		rank := x.tRank(st, t)
		x.ghostSet(st, "coord$it", ref, it)
		return Val{T: i.Type(), C: []string{ref, "0", rank, rank}}
	})
	slice := func(x *Exec, fr *Frame, i *ssa.Call, fn *ssa.Function, args []Val) Val {
		st := fr.curSt
		t := tensorRef(args[0])
		sl := args[1]
		rank := x.tRank(st, t)
		x.uninterp("sliced_rank", []string{SInt, SInt, SInt, SInt}, SInt)
		x.uninterp("sliced_dim", []string{SInt, SInt, SInt, SInt, SInt}, SInt)
		rr := sx("sliced_rank", x.tShp(st, t), sl.base(), sl.off(), sl.slen())
		d := dimsOf{rank: rr, dim: func(k string) string { return sx("sliced_dim", x.tShp(st, t), sl.base(), sl.off(), sl.slen(), k) }}
		x.assume("true", and(sx("<=", "0", rr), sx("<=", rr, rank)))
		x.emit(sx("assert", fmt.Sprintf("(forall ((k Int)) (! (>= %s 1) :pattern (%s)))", d.dim("k"), d.dim("k"))))
		res := x.newTensorObj(fr, "view", d, x.tDtype(st, t), sx(x.ufn("k_slice", 2), x.tCont(st, t), sl.base()))
		x.ghostSet(st, "t$view", res, "1")
		x.ghostSet(st, "t$buf", res, x.tBuf(st, t))
		// what was asked for is remembered per view (a view is a fresh object, so these facts are a
		// snapshot that later writes to the slice list cannot invalidate): the parent tensor, which
		// axes were left whole, and - for gonnx's own *ops.Slicer objects - start, end and step
		x.viewFacts(fr, st, res, t, sl)
		ok := and(sx("<=", sl.slen(), rank), x.nondetBool("slice_ok"))
		return x.resultTE(fr, i, ok, res)
	}
	reg("tensor.Tensor.Slice", "view sharing the buffer; error if more slices than axes or a range is invalid; the result shape follows gorgonia's rules (extent-1 sliced axes are dropped) — here only rank <= input rank and extents >= 1 are stated", slice)
	reg("(*gorgonia.org/tensor.Dense).Slice", "see Tensor.Slice", slice)
	reg("tensor.View.Materialize", "fresh contiguous tensor with the view's shape, dtype and contents", func(x *Exec, fr *Frame, i *ssa.Call, fn *ssa.Function, args []Val) Val {
		st := fr.curSt
		t := tensorRef(args[0])
		res := x.newTensorObj(fr, "materialized", x.shapeOfTensor(st, t), x.tDtype(st, t), x.tCont(st, t))
		return Val{T: i.Type(), C: []string{x.denseTag(), res}}
	})

	// ---------------------------------------------------------------- constructors
	reg("gorgonia.org/tensor.Of", "construction option: element type", func(x *Exec, fr *Frame, i *ssa.Call, fn *ssa.Function, args []Val) Val {
		st := fr.curSt
		id := x.newRef(st, "of")
		x.ghostSet(st, "co$kind", id, "3")
		x.ghostSet(st, "co$dtype", id, args[0].C[0])
		return Val{T: i.Type(), C: []string{id}}
	})
	reg("gorgonia.org/tensor.FromScalar", "construction option: rank-0 tensor holding the scalar", func(x *Exec, fr *Frame, i *ssa.Call, fn *ssa.Function, args []Val) Val {
		st := fr.curSt
		id := x.newRef(st, "fromscalar")
		x.ghostSet(st, "co$kind", id, "4")
		x.ghostSet(st, "co$tag", id, args[0].tag())
		x.ghostSet(st, "co$pay", id, args[0].pay())
		return Val{T: i.Type(), C: []string{id}}
	})
	reg("gorgonia.org/tensor.NewDense", "fresh zero tensor of the given dtype and shape (extents must be >= 1 for rank >= 1)", func(x *Exec, fr *Frame, i *ssa.Call, fn *ssa.Function, args []Val) Val {
		st := fr.curSt
		dt := args[0].C[0]
		shape := args[1]
		d := x.shapeOfSlice(st, shape)
		x.oblige(fr, "nopanic", "NewDense-negative-dim", x.contractTags(fr),
			fmt.Sprintf("(forall ((i Int)) (=> (and (<= 0 i) (< i %s)) (>= %s 0)))", d.rank, d.dim("i")), fr.curPC, "tensor.NewDense panics on a negative extent", "")
		res := x.newTensorObj(fr, "newdense", d, dt, sx(x.ufn("k_zero", 1), d.rank))
		x.ghostSet(st, "t$zeroed", res, "1")
		return Val{T: i.Type(), C: []string{res}}
	})
	reg("(*gorgonia.org/tensor.Dense).AddScalar", "adds a scalar to every element: fresh tensor, same shape and dtype; error unless numeric and the scalar has the tensor's dtype",
		func(x *Exec, fr *Frame, i *ssa.Call, fn *ssa.Function, args []Val) Val {
			st := fr.curSt
			t := args[0].C[0]
			res := x.newTensorObj(fr, "addscalar", x.shapeOfTensor(st, t), x.tDtype(st, t), sx(x.ufn("k_addscalar", 2), x.tCont(st, t), args[1].pay()))
			// the operand is a Go scalar of the tensor's element type, or a (scalar) tensor, for which
			// success is left open
			isTensor := eq(args[1].tag(), x.denseTag())
			ok := and(numericDtype(x.tDtype(st, t)), or(eq(x.scalarDtype(args[1]), x.tDtype(st, t)), and(isTensor, x.nondetBool("addscalar_tensor_ok"))))
			return x.resultTE(fr, i, ok, res)
		})
	for _, name := range []string{"Acos", "Acosh", "Asin", "Asinh", "Atan", "Atanh", "Cos", "Cosh", "Sin", "Sinh", "Tan"} {
		name := name
		reg("math."+name, "uninterpreted float64 function (accuracy of the Go math library is assumed)", func(x *Exec, fr *Frame, i *ssa.Call, fn *ssa.Function, args []Val) Val {
			x.uninterp("math_"+name, []string{SF64}, SF64)
			return Val{T: i.Type(), C: []string{sx("math_"+name, args[0].C[0])}}
		})
	}
}

// permitted: may the function under verification write component comp of object ref?
func (x *Exec) permitted(fr *Frame, comp, ref string) string {
	top := x.topFrame
	if top == nil || x.noFrame {
		return "true"
	}
	if comp == "G$t$cont" {
		// contents live in the buffer, which views and tensors built over an existing backing share
		// with the tensor they come from: a new header does not make an old buffer writable
		st := fr.curSt
		buf := x.tBuf(st, ref)
		alts := []string{sx(">=", buf, top.allocEntry), eq(ref, "0")} // a nil tensor cannot be written: the call panics first
		for _, ls := range top.modLocs {
			for _, cn := range ls.Comps {
				if cn == comp {
					alts = append(alts, eq(buf, x.tBuf(st, ls.Ref)))
				}
			}
		}
		return or(alts...)
	}
	var alts []string
	alts = append(alts, sx(">=", ref, top.allocEntry))
	for _, ls := range top.modLocs {
		for _, cn := range ls.Comps {
			if cn == comp {
				alts = append(alts, eq(ref, ls.Ref))
			}
		}
	}
	return or(alts...)
}


// viewFacts records, for the view res = t.Slice(sl...), the uninterpreted snapshot functions
// vparent(res), vwhole(res, d), vstart / vend / vstep(res, d).
func (x *Exec) viewFacts(fr *Frame, st *State, res, t string, sl Val) {
	x.uninterp("vparent", []string{SInt}, SInt)
	x.uninterp("vwhole", []string{SInt, SInt}, SBool)
	for _, f := range []string{"vstart", "vend", "vstep"} {
		x.uninterp(f, []string{SInt, SInt}, SInt)
	}
	x.assume("true", eq(sx("vparent", res), t))
	st0, ok := sl.T.Underlying().(*types.Slice)
	if !ok {
		return
	}
	et := st0.Elem()
	tagH := x.comp(st, "E$"+typeKey(et)+"$0", elemSort(SInt))
	payH := x.comp(st, "E$"+typeKey(et)+"$1", elemSort(SInt))
	tagAt := sel2(tagH, sl.base(), add(sl.off(), "d"))
	payAt := sel2(payH, sl.base(), add(sl.off(), "d"))
	body := eq(sx("vwhole", res, "d"), eq(tagAt, "0"))
	if pt := x.prog.typeByName("*ops.Slicer"); pt != nil {
		stt := pt.(*types.Pointer).Elem()
		var fs []string
		for k, f := range []string{"vstart", "vend", "vstep"} {
			h := x.comp(st, fmt.Sprintf("F$%s$%d", typeKey(stt), k), fieldSort(SInt))
			fs = append(fs, eq(sx(f, res, "d"), sel(h, payAt)))
		}
		body = and(body, implies(eq(tagAt, x.typeTag(pt)), and(fs...)))
	}
	x.assume("true", fmt.Sprintf("(forall ((d Int)) (! (=> (and (<= 0 d) (< d %s)) %s) :pattern ((vwhole %s d))))", sl.slen(), body, res))
	x.assume("true", fmt.Sprintf("(forall ((d Int)) (! (=> (>= d %s) (vwhole %s d)) :pattern ((vwhole %s d))))", sl.slen(), res, res))
}
