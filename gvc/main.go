package main

import (
	"flag"
	"fmt"
	"os"
	"path/filepath"
	"runtime"
	"sort"
	"strconv"
	"strings"
	"time"

	"golang.org/x/tools/go/ssa"
	"golang.org/x/tools/go/ssa/ssautil"
)

func allFunctions(prog *Program) map[*ssa.Function]bool { return ssautil.AllFunctions(prog.prog) }

func envOr(k, d string) string {
	if v := os.Getenv(k); v != "" {
		return v
	}
	return d
}

func main() {
	if len(os.Args) < 2 {
		fmt.Fprintln(os.Stderr, "usage: gvc check|vc|replay|scan ...")
		os.Exit(2)
	}
	switch os.Args[1] {
	case "check":
		exit(cmdCheck(os.Args[2:]))
	case "vc":
		exit(cmdVC(os.Args[2:]))
	case "replay":
		exit(cmdReplay(os.Args[2:]))
	case "ext":
		prog, _, err := setup(envOr("GVC_REPO", "/repo"), envOr("GVC_VERIF", "/verif"))
		if err != nil {
			fmt.Println(err)
			os.Exit(2)
		}
		cmdExt(prog)
		os.Exit(0)
	default:
		fmt.Fprintln(os.Stderr, "unknown command", os.Args[1])
		os.Exit(2)
	}
}

func setup(repo, verifDir string) (*Program, *ContractSet, error) {
	t0 := time.Now()
	prog, err := loadProgram(repo, verifDir)
	if err != nil {
		return nil, nil, err
	}
	prog.loadSecs = time.Since(t0).Seconds()
	cs, err := loadContracts(repo, filepath.Join(verifDir, "contracts", "repo"))
	if err != nil {
		return nil, nil, err
	}
	kf, err := loadKnownFindings(filepath.Join(verifDir, "known_findings.json"))
	if err != nil {
		return nil, nil, err
	}
	prog.known = kf
	return prog, cs, nil
}

func cmdCheck(args []string) int {
	fs := flag.NewFlagSet("check", flag.ExitOnError)
	property := fs.String("property", "", "property id (C01..C18)")
	tier := fs.String("tier", envOr("VERIF_TIER", "quick"), "quick|thorough")
	repo := fs.String("repo", envOr("GVC_REPO", "/repo"), "repository root")
	verifDir := fs.String("verif", envOr("GVC_VERIF", "/verif"), "verification directory")
	verbose := fs.Bool("v", false, "list every obligation")
	record := fs.Bool("record", false, "record which query variant proved each obligation in contracts/proof_plan.json")
	fs.Parse(args)
	loadPlan(*verifDir)
	seed, _ := strconv.Atoi(envOr("VERIF_SEED", "0"))
	workers := runtime.NumCPU()
	initSolvers(workers/2+2, filepath.Join(*verifDir, ".cache"))

	fail := func(msg string) int {
		// machinery failure: not a verdict about the property
		fmt.Printf("BROKEN-CHECK property=%s: %s\n", *property, msg)
		return 2
	}
	prog, cs, err := setup(*repo, *verifDir)
	if err != nil {
		return fail(err.Error())
	}
	pm, err := loadPropertyMap(filepath.Join(*verifDir, "contracts", "properties.map"))
	if err != nil {
		return fail(err.Error())
	}
	pd := pm[*property]
	if pd == nil {
		return fail("no such property in properties.map")
	}
	res := runCheck(prog, cs, pd, *tier, workers)
	if *record {
		if err := recordPlan(res.Obligations); err != nil {
			fmt.Fprintln(os.Stderr, "proof plan not recorded:", err)
		}
	}
	t0 := time.Now()
	res.Broken = append(res.Broken, vacuityQueries(res)...)
	t1 := time.Now()
	lemmaObls := runLemmas(prog, cs, pd, *tier)
	if os.Getenv("GVC_TIMING") != "" {
		fmt.Fprintf(os.Stderr, "timing: vacuity %.1fs lemmas %.1fs\n", t1.Sub(t0).Seconds(), time.Since(t1).Seconds())
	}
	res.Obligations = append(res.Obligations, lemmaObls...)
	for _, o := range lemmaObls {
		if o.Result.Status != "unsat" {
			res.Failed = append(res.Failed, o)
		}
	}
	return report(prog, cs, res, *verifDir, seed, *verbose)
}

func report(prog *Program, cs *ContractSet, res *CheckResult, verifDir string, seed int, verbose bool) int {
	sort.Slice(res.Obligations, func(i, j int) bool { return res.Obligations[i].Name < res.Obligations[j].Name })
	if verbose {
		for _, o := range res.Obligations {
			fmt.Printf("  %-8s %-60s %s %.2fs\n", o.Result.Status, o.Name, o.Result.Solver, o.Result.Seconds)
		}
	}
	violations := 0
	exit := 0
	// expected obligation counts (vacuity guard)
	if exp, ok := expectedCount(verifDir, res.Property); ok && len(res.Obligations) < exp {
		res.Broken = append(res.Broken, fmt.Sprintf("obligation count shrank: %d < expected %d", len(res.Obligations), exp))
	}
	if len(res.Obligations) == 0 {
		res.Broken = append(res.Broken, "zero obligations generated")
	}
	replayDir := filepath.Join(envOr("GVC_REPLAY_DIR", filepath.Join(verifDir, "replays")), res.Property)
	for _, o := range res.Failed {
		if kf := prog.known.match(res.Property, o.Name); kf != nil {
			msg := fmt.Sprintf("KNOWN-FINDING: property=%s %s — %s", res.Property, o.Name, kf.What)
			res.Known = append(res.Known, msg)
			fmt.Println(msg)
			continue
		}
		violations++
		path, confirmed := writeReplay(prog, res, o, replayDir)
		suffix := ""
		if !confirmed {
			suffix = " no-failing-input-found"
		}
		fmt.Printf("VIOLATION property=%s replay=%s obligation=%s status=%s%s\n", res.Property, path, o.Name, o.Result.Status, suffix)
		fmt.Printf("  %s:%d: %s [%s]\n", relPath(o.Pos.Filename), o.Pos.Line, o.Desc, o.Src)
		exit = 1
	}
	for _, b := range res.Broken {
		violations++
		os.MkdirAll(replayDir, 0o755)
		p := filepath.Join(replayDir, "broken-"+sanitize(truncate(b, 60))+".json")
		os.WriteFile(p, []byte(fmt.Sprintf("{\"obligation\": %q, \"kind\": \"machinery\", \"detail\": %q}\n", "machinery:"+truncate(b, 60), b)), 0o644)
		fmt.Printf("VIOLATION property=%s replay=%s obligation=machinery no-failing-input-found\n  %s\n", res.Property, p, b)
		exit = 1
	}
	discharged := len(res.Obligations) - len(res.Failed)
	fmt.Printf("property %s tier %s: %d obligations, %d discharged, %d known findings, %d violations, %d functions, %.1fs (load %.1fs, vcgen %.1fs)\n",
		res.Property, res.Tier, len(res.Obligations), discharged, len(res.Known), violations, len(res.Execs), res.Wall+prog.loadSecs, prog.loadSecs, res.GenSecs)
	extra := map[string]any{
		"known_findings_file": "known_findings.json",
		"load_s":              round3(prog.loadSecs),
	}
	// known-finding obligations count in their recorded form: they are listed, not discharged
	if err := writeEvidence(verifDir, res, cs, extra, violations, seed); err != nil {
		fmt.Printf("BROKEN-CHECK cannot write evidence: %v\n", err)
		return 2
	}
	return exit
}

func expectedCount(verifDir, property string) (int, bool) {
	b, err := os.ReadFile(filepath.Join(verifDir, "contracts", "expected_counts.txt"))
	if err != nil {
		return 0, false
	}
	for _, l := range strings.Split(string(b), "\n") {
		f := strings.Fields(l)
		if len(f) == 2 && f[0] == property {
			n, err := strconv.Atoi(f[1])
			return n, err == nil
		}
	}
	return 0, false
}

// cmdVC: developer tool — verify the functions matching a pattern, print every obligation.
func cmdVC(args []string) int {
	fs := flag.NewFlagSet("vc", flag.ExitOnError)
	pattern := fs.String("func", "", "function key pattern, e.g. 'ops.AllInRange' or 'onnx.Read*'")
	property := fs.String("property", "", "restrict clauses to a property tag")
	repo := fs.String("repo", envOr("GVC_REPO", "/repo"), "repository root")
	verifDir := fs.String("verif", envOr("GVC_VERIF", "/verif"), "verification directory")
	dump := fs.String("dump", "", "write the query of the obligation with this name to stdout")
	feas := fs.Bool("feas", false, "check that the context of every obligation is satisfiable (quantifier-free weakening)")
	timeout := fs.Int("t", 10, "solver timeout (s)")
	fs.Parse(args)
	initSolvers(runtime.NumCPU(), "")
	prog, cs, err := setup(*repo, *verifDir)
	if err != nil {
		fmt.Println("error:", err)
		return 2
	}
	os.Setenv("GVC_TIMEOUT", fmt.Sprint(*timeout))
	pd := &PropertyDef{ID: *property, Roots: strings.Split(*pattern, ",")}
	res := runCheck(prog, cs, pd, "quick", runtime.NumCPU())
	sort.Slice(res.Obligations, func(i, j int) bool { return res.Obligations[i].Name < res.Obligations[j].Name })
	for _, o := range res.Obligations {
		fmt.Printf("  %-8s %-70s %-10s %.2fs  %s:%d\n", o.Result.Status, o.Name, o.Result.Solver, o.Result.Seconds, relPath(o.Pos.Filename), o.Pos.Line)
		if o.Result.Status != "unsat" {
			fmt.Printf("           %s [%s]\n", o.Desc, o.Src)
		}
		if *feas && o.exec != nil {
			oo := *o
			oo.Goal = "false"
			q := o.exec.cexQuery(&oo) + "(check-sat)\n"
			r := solve(q, 10, false, false)
			if r.Status == "unsat" {
				fmt.Printf("           INFEASIBLE CONTEXT (weakened context is unsat) for %s\n", o.Name)
			}
		}
		if *dump != "" && o.Name == *dump {
			os.WriteFile("/tmp/gvc_dump.smt2", []byte(o.exec.query(o, true)), 0o644)
			os.WriteFile("/tmp/gvc_dump_sliced.smt2", []byte(o.exec.slicedQuery(o, 2, true)), 0o644)
			os.WriteFile("/tmp/gvc_dump_sliced_plain.smt2", []byte(o.exec.slicedQuery(o, 2, false)), 0o644)
			os.WriteFile("/tmp/gvc_dump_sliced_plain2.smt2", []byte(o.exec.slicedQuery(o, 2, false, 2)), 0o644)
			os.WriteFile("/tmp/gvc_dump_slice4_plain.smt2", []byte(o.exec.slicedQuery(o, 4, false)), 0o644)
			os.WriteFile("/tmp/gvc_dump_sliceinf_plain.smt2", []byte(o.exec.slicedQuery(o, -1, false)), 0o644)
			fmt.Println("           query written to /tmp/gvc_dump.smt2")
		}
	}
	for _, b := range res.Broken {
		fmt.Println("  BROKEN:", b)
	}
	for _, b := range vacuityQueries(res) {
		fmt.Println("  BROKEN:", b)
	}
	fmt.Printf("%d obligations, %d failed, %d functions, %.1fs\n", len(res.Obligations), len(res.Failed), len(res.Execs), res.Wall)
	if len(res.Failed) > 0 || len(res.Broken) > 0 {
		return 1
	}
	return 0
}

// exit removes the per-process scratch directory (solver query files of races still in flight).
func exit(code int) {
	if tempRoot != "" {
		os.RemoveAll(tempRoot)
	}
	os.Exit(code)
}
