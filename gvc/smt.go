package main

// SMT-LIB text helpers and the solver portfolio.

import (
	"bytes"
	"context"
	"crypto/sha256"
	"encoding/hex"
	"fmt"
	"os"
	"os/exec"
	"path/filepath"
	"strings"
	"sync"
	"time"
)

// Sorts used by the encoding.
const (
	SInt  = "Int"
	SBool = "Bool"
	SF32  = "(_ FloatingPoint 8 24)"
	SF64  = "(_ FloatingPoint 11 53)"
	SStr  = "Str"
)

func sx(op string, args ...string) string {
	return "(" + op + " " + strings.Join(args, " ") + ")"
}

func and(ts ...string) string {
	var out []string
	for _, t := range ts {
		if t == "true" || t == "" {
			continue
		}
		if t == "false" {
			return "false"
		}
		out = append(out, t)
	}
	switch len(out) {
	case 0:
		return "true"
	case 1:
		return out[0]
	}
	return sx("and", out...)
}

func or(ts ...string) string {
	var out []string
	for _, t := range ts {
		if t == "false" || t == "" {
			continue
		}
		if t == "true" {
			return "true"
		}
		out = append(out, t)
	}
	switch len(out) {
	case 0:
		return "false"
	case 1:
		return out[0]
	}
	return sx("or", out...)
}

func not(t string) string {
	switch t {
	case "true":
		return "false"
	case "false":
		return "true"
	}
	if strings.HasPrefix(t, "(not ") && balancedOne(t[5:len(t)-1]) {
		return t[5 : len(t)-1]
	}
	return sx("not", t)
}

// balancedOne reports whether s is exactly one s-expression.
func balancedOne(s string) bool {
	depth := 0
	for i, c := range s {
		switch c {
		case '(':
			depth++
		case ')':
			depth--
			if depth == 0 && i != len(s)-1 {
				return false
			}
		case ' ':
			if depth == 0 {
				return false
			}
		}
	}
	return depth == 0
}

func implies(a, b string) string {
	if a == "true" {
		return b
	}
	if a == "false" || b == "true" {
		return "true"
	}
	return sx("=>", a, b)
}

func eq(a, b string) string {
	if a == b {
		return "true"
	}
	return sx("=", a, b)
}

func ite(c, a, b string) string {
	if c == "true" {
		return a
	}
	if c == "false" {
		return b
	}
	if a == b {
		return a
	}
	return sx("ite", c, a, b)
}

func intLit(n int64) string {
	if n < 0 {
		return fmt.Sprintf("(- %d)", -n)
	}
	return fmt.Sprintf("%d", n)
}

func sel(arr, idx string) string        { return sx("select", arr, idx) }
func sto(arr, idx, val string) string   { return sx("store", arr, idx, val) }
func sel2(arr, r, i string) string      { return sel(sel(arr, r), i) }
func sto2(arr, r, i, val string) string { return sto(arr, r, sto(sel(arr, r), i, val)) }

func arraySort(idx, elem string) string { return "(Array " + idx + " " + elem + ")" }

// ---------------------------------------------------------------------------------------
// Solver portfolio

type SolverResult struct {
	Status  string // unsat | sat | unknown | timeout | error
	Solver  string
	Seconds float64
	Output  string
	K, Mode int  // slice level and query variant that produced the answer (ladder only)
	Ladder  bool // produced by the ladder (K and Mode are meaningful)
}

type solverDef struct {
	name string
	argv func(file string, timeoutS int) []string
}

var solverDefs = []solverDef{
	{"z3-new", func(f string, t int) []string {
		return []string{"z3-new", fmt.Sprintf("-T:%d", t), "-smt2", f}
	}},
	{"z3", func(f string, t int) []string {
		return []string{"z3", fmt.Sprintf("-T:%d", t), "-smt2", f}
	}},
	{"cvc5", func(f string, t int) []string {
		return []string{"cvc5", "--produce-models", fmt.Sprintf("--tlimit=%d", t*1000), "--lang=smt2", f}
	}},
}

var (
	cacheDir   = ""
	cacheMu    sync.Mutex
	solverSem  chan struct{}
	solverTime sync.Map // solver name -> *float64 accumulators guarded by cacheMu
	solverSecs = map[string]float64{}
)

func initSolvers(workers int, cache string) {
	solverSem = make(chan struct{}, workers)
	cacheDir = cache
	if cacheDir != "" {
		os.MkdirAll(cacheDir, 0o755)
	}
}

func parseStatus(out string) string {
	for _, line := range strings.Split(out, "\n") {
		line = strings.TrimSpace(line)
		switch line {
		case "unsat", "sat", "unknown", "timeout":
			return line
		}
		if line != "" && !strings.HasPrefix(line, ";") && !strings.HasPrefix(line, "(error") && !strings.HasPrefix(line, "WARNING") {
			// first meaningful line is not a status
			if strings.Contains(line, "interrupted") {
				return "timeout"
			}
		}
	}
	if strings.Contains(out, "(error") {
		return "error"
	}
	return "unknown"
}

func runOneSolver(ctx context.Context, sd solverDef, file string, timeoutS int) SolverResult {
	start := time.Now()
	argv := sd.argv(file, timeoutS)
	cctx, cancel := context.WithTimeout(ctx, time.Duration(timeoutS+2)*time.Second)
	defer cancel()
	cmd := exec.CommandContext(cctx, argv[0], argv[1:]...)
	var buf bytes.Buffer
	cmd.Stdout = &buf
	cmd.Stderr = &buf
	_ = cmd.Run()
	secs := time.Since(start).Seconds()
	out := buf.String()
	st := parseStatus(out)
	if cctx.Err() != nil && st == "unknown" {
		st = "timeout"
	}
	cacheMu.Lock()
	solverSecs[sd.name] += secs
	cacheMu.Unlock()
	return SolverResult{Status: st, Solver: sd.name, Seconds: secs, Output: out}
}

// solve races the portfolio on a query; the first definite answer (sat/unsat) wins.
// If all=true every solver is run to completion and disagreement is reported as error.
func solve(query string, timeoutS int, all bool, wantModel bool) SolverResult {
	sum := sha256.Sum256([]byte(query))
	key := hex.EncodeToString(sum[:])
	if cacheDir != "" && !all {
		if b, err := os.ReadFile(filepath.Join(cacheDir, key)); err == nil {
			parts := strings.SplitN(string(b), "\n", 3)
			if len(parts) == 3 && (parts[0] == "unsat" || (parts[0] == "sat" && !wantModel)) {
				return SolverResult{Status: parts[0], Solver: parts[1] + " (cached)", Output: parts[2]}
			}
		}
	}
	solverSem <- struct{}{}
	defer func() { <-solverSem }()

	dir, err := os.MkdirTemp(scratchRoot(), "q")
	if err != nil {
		return SolverResult{Status: "error", Output: err.Error()}
	}
	defer os.RemoveAll(dir)
	file := filepath.Join(dir, "q.smt2")
	cvcFile := filepath.Join(dir, "qc.smt2")
	os.WriteFile(file, []byte(query), 0o644)
	// cvc5 wants a logic and produce-models up front
	os.WriteFile(cvcFile, []byte("(set-logic ALL)\n"+query), 0o644)

	ctx, cancel := context.WithCancel(context.Background())
	defer cancel()
	ch := make(chan SolverResult, len(solverDefs))
	for _, sd := range solverDefs {
		sd := sd
		go func() {
			f := file
			if sd.name == "cvc5" {
				f = cvcFile
			}
			ch <- runOneSolver(ctx, sd, f, timeoutS)
		}()
	}
	var results []SolverResult
	var best SolverResult
	started := time.Now()
	var grace <-chan time.Time
collect:
	for range solverDefs {
		select {
		case r := <-ch:
			results = append(results, r)
			if (r.Status == "unsat" || r.Status == "sat") && best.Status == "" {
				best = r
				if !all {
					cancel()
					break collect
				}
				// cross-check: the other solvers get a grace period (at least 5 s, twice the time
				// the first answer took) to confirm or contradict it
				g := 2 * time.Since(started)
				if g < 5*time.Second {
					g = 5 * time.Second
				}
				grace = time.After(g)
			}
		case <-grace:
			cancel()
			break collect
		}
	}
	if all {
		sawSat, sawUnsat := false, false
		var agree []string
		for _, r := range results {
			if r.Status == "sat" {
				sawSat = true
			}
			if r.Status == "unsat" {
				sawUnsat = true
				agree = append(agree, r.Solver)
			}
		}
		if sawSat && sawUnsat {
			return SolverResult{Status: "error", Solver: "portfolio", Output: "solver disagreement"}
		}
		if best.Status == "unsat" {
			best.Solver = strings.Join(agree, "+")
		}
	}
	if best.Status == "" {
		// no definite answer
		st := "unknown"
		allTO := true
		var outs []string
		for _, r := range results {
			if r.Status != "timeout" {
				allTO = false
			}
			outs = append(outs, r.Solver+": "+r.Status+" "+firstLines(r.Output, 3))
		}
		if allTO {
			st = "timeout"
		}
		best = SolverResult{Status: st, Solver: "portfolio", Output: strings.Join(outs, "\n")}
	}
	if cacheDir != "" && best.Status == "unsat" {
		os.WriteFile(filepath.Join(cacheDir, key), []byte(best.Status+"\n"+best.Solver+"\n"+best.Output), 0o644)
	}
	return best
}

func firstLines(s string, n int) string {
	lines := strings.Split(strings.TrimSpace(s), "\n")
	if len(lines) > n {
		lines = lines[:n]
	}
	return strings.Join(lines, " | ")
}

// ---------------------------------------------------------------------------------------
// Model parsing (z3 / cvc5 get-model / get-value output)

// parseGetValue parses the output of (get-value (t1 t2 ...)) into a map term->value text.
func parseGetValue(out string) map[string]string {
	res := map[string]string{}
	i := strings.Index(out, "((")
	if i < 0 {
		return res
	}
	s := out[i:]
	// tokenise into top-level pairs
	toks := sexprSplit(s)
	if len(toks) != 1 {
		return res
	}
	inner := strings.TrimSpace(toks[0])
	inner = inner[1 : len(inner)-1]
	for _, pair := range sexprSplit(inner) {
		p := strings.TrimSpace(pair)
		if len(p) < 2 {
			continue
		}
		kv := sexprSplit(p[1 : len(p)-1])
		if len(kv) == 2 {
			res[strings.TrimSpace(kv[0])] = strings.TrimSpace(kv[1])
		}
	}
	return res
}

// sexprSplit splits a string into its top-level s-expressions / atoms.
func sexprSplit(s string) []string {
	var out []string
	depth := 0
	start := -1
	inStr := false
	for i := 0; i < len(s); i++ {
		c := s[i]
		if inStr {
			if c == '"' {
				inStr = false
				if depth == 0 {
					out = append(out, s[start:i+1])
					start = -1
				}
			}
			continue
		}
		switch c {
		case '"':
			inStr = true
			if depth == 0 && start < 0 {
				start = i
			}
		case '(':
			if depth == 0 && start < 0 {
				start = i
			}
			depth++
		case ')':
			depth--
			if depth == 0 && start >= 0 {
				out = append(out, s[start:i+1])
				start = -1
			}
		case ' ', '\n', '\t', '\r':
			if depth == 0 && start >= 0 {
				out = append(out, s[start:i])
				start = -1
			}
		default:
			if depth == 0 && start < 0 {
				start = i
			}
		}
	}
	if start >= 0 {
		out = append(out, s[start:])
	}
	return out
}

// parseSMTInt parses "5", "(- 5)" into an int64.
func parseSMTInt(s string) (int64, bool) {
	s = strings.TrimSpace(s)
	neg := false
	if strings.HasPrefix(s, "(-") {
		neg = true
		s = strings.TrimSpace(s[2 : len(s)-1])
	}
	var n int64
	if _, err := fmt.Sscanf(s, "%d", &n); err != nil {
		return 0, false
	}
	if neg {
		n = -n
	}
	return n, true
}

var (
	tempRoot     string
	tempRootOnce sync.Once
)

// scratchRoot is one directory per process so that an exit while solver races are still in
// flight leaves nothing behind.
func scratchRoot() string {
	tempRootOnce.Do(func() {
		d, err := os.MkdirTemp("", "gvcq")
		if err == nil {
			tempRoot = d
		}
	})
	return tempRoot
}
