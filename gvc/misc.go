package main

var ghostLocs = map[string]func(env *SpecEnv, n ECall, src string) []LocSet{}
