package main

import (
	"golang.org/x/tools/go/ssa"
)

// stubs filled in by later stages

func tryReplay(prog *Program, o *Obligation, rf *ReplayFile) bool {
	rf.ReplayResult = "replay not available for this obligation kind"
	return false
}

func runReplayTest(repo, pkg, test string) (string, bool) { return "", false }

func runLemmas(prog *Program, cs *ContractSet, pd *PropertyDef, tier string) []*Obligation { return nil }

func (x *Exec) literalGlobal(fr *Frame, g *ssa.Global) (Val, bool) { return Val{}, false }

var ghostLocs = map[string]func(env *SpecEnv, n ECall, src string) []LocSet{}

func registerGhostBuiltins() {}
