package main

import (
	"golang.org/x/tools/go/ssa"
)



func runLemmas(prog *Program, cs *ContractSet, pd *PropertyDef, tier string) []*Obligation { return nil }

func (x *Exec) literalGlobal(fr *Frame, g *ssa.Global) (Val, bool) { return Val{}, false }

var ghostLocs = map[string]func(env *SpecEnv, n ECall, src string) []LocSet{}
