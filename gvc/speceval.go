package main

// Evaluation of contract expressions over the symbolic state.

import (
	"fmt"
	"go/token"
	"go/types"
	"strings"

	"golang.org/x/tools/go/ssa"
)

type SpecEnv struct {
	x        *Exec
	fr       *Frame
	vars     map[string]Val
	bound    map[string]Val
	st, old  *State
	allocOld string
	loop     *Loop
	phiFrom  *ssa.BasicBlock
	depth    int
	atPoint  bool // evaluated at a program point inside a loop body (proof hints): locals by reaching definition
	qd       int // number of enclosing spec quantifier variables (canonical bound-variable names)
}

type specErr string

func (e *SpecEnv) fail(format string, a ...any) {
	panic(specErr(fmt.Sprintf(format, a...)))
}

func (e *SpecEnv) with(name string, v Val) *SpecEnv {
	n := *e
	n.bound = map[string]Val{}
	for k, val := range e.bound {
		n.bound[k] = val
	}
	n.bound[name] = v
	return &n
}

func (e *SpecEnv) inOld() *SpecEnv {
	n := *e
	n.st = e.old
	return &n
}

// funcEnv: environment for clauses of the function executing in fr.
func (x *Exec) funcEnv(fr *Frame, st *State) *SpecEnv {
	env := &SpecEnv{x: x, fr: fr, vars: map[string]Val{}, st: st, old: fr.entry, allocOld: fr.allocEntry}
	for k, p := range fr.fn.Params {
		if k < len(fr.params) {
			env.vars[p.Name()] = fr.params[k]
		}
	}
	if fr.fn.Signature.Recv() != nil && len(fr.params) > 0 {
		env.vars["self"] = fr.params[0]
	}
	// family contracts of the operator methods call the tensor list "inputs" whatever the
	// implementation names (or does not name) that parameter
	if _, have := env.vars["inputs"]; !have {
		cand := -1
		for k, p := range fr.fn.Params {
			if k < len(fr.params) && p.Type().String() == "[]gorgonia.org/tensor.Tensor" {
				if cand >= 0 {
					cand = -2
					break
				}
				cand = k
			}
		}
		if cand >= 0 {
			env.vars["inputs"] = fr.params[cand]
		}
	}
	return env
}

func (x *Exec) evalBool(env *SpecEnv, e Expr) (res string) {
	defer func() {
		if r := recover(); r != nil {
			if se, ok := r.(specErr); ok {
				msg := fmt.Sprintf("spec error in %s: %s: %s", x.topLabel, e.String(), string(se))
				x.specErrors = append(x.specErrors, msg)
				res = "false"
				return
			}
			panic(r)
		}
	}()
	v := env.eval(e)
	if len(v.C) != 1 || !(isBool(v.T) || (v.T == nil && len(v.Sorts) == 1 && v.Sorts[0] == SBool)) {
		env.fail("expression is not boolean: %s", e)
	}
	return v.C[0]
}

func (e *SpecEnv) phiValue(phi *ssa.Phi) Val {
	if e.phiFrom != nil {
		idx := predIndex(phi.Block(), e.phiFrom)
		if idx >= 0 {
			return e.x.valueOf(e.fr, phi.Edges[idx])
		}
	}
	return e.x.valueOf(e.fr, phi)
}

// lookupName resolves an identifier.
func (e *SpecEnv) lookupName(name string) (Val, bool) {
	if v, ok := e.bound[name]; ok {
		return v, true
	}
	x := e.x
	fr := e.fr
	if e.loop != nil && len(name) > 0 && name[0] != '$' {
		// loop-carried variables shadow parameters of the same name; the entry value of a
		// parameter p stays available as p0
		for l := e.loop; l != nil; l = enclosing(fr, l) {
			for _, ins := range l.Header.Instrs {
				phi, ok := ins.(*ssa.Phi)
				if !ok {
					break
				}
				if phi.Comment == name {
					if l == e.loop {
						return e.phiValue(phi), true
					}
					return x.valueOf(fr, phi), true
				}
			}
		}
	}
	if e.loop != nil && fr != nil {
		// inside a loop a reassigned parameter means its current value (p0 is the entry value)
		if _, isParam := e.vars[name]; isParam {
			if v, ok := e.debugLookup(name); ok {
				return v, true
			}
		}
	}
	if v, ok := e.vars[name]; ok {
		return v, true
	}
	if n := len(name); n > 1 && name[n-1] == '0' {
		if v, ok := e.vars[name[:n-1]]; ok {
			return v, true
		}
	}
	if e.loop != nil {
		if name == "$i" {
			for _, ins := range e.loop.Header.Instrs {
				if phi, ok := ins.(*ssa.Phi); ok && phi.Comment == "rangeindex" {
					v := e.phiValue(phi)
					return specInt(add(v.C[0], "1")), true
				}
			}
		}
		if name == "$key" || name == "$val" {
			// key / value of the innermost enclosing map range
			for l := e.loop; l != nil; l = enclosing(fr, l) {
				for _, ins := range l.Header.Instrs {
					if nx, ok := ins.(*ssa.Next); ok && !nx.IsString {
						tv, have := fr.vals[nx]
						if !have {
							break
						}
						tp := nx.Type().(*types.Tuple)
						idx := 1
						if name == "$val" {
							idx = 2
						}
						lo, hi := tupleRange(tp, idx)
						return Val{T: tp.At(idx).Type(), C: tv.C[lo:hi]}, true
					}
				}
			}
		}
		if name == "$range" {
			// the slice ranged over by the innermost enclosing range-over-slice loop
			for l := e.loop; l != nil; l = enclosing(fr, l) {
				for _, ins := range l.Header.Instrs {
					bo, ok := ins.(*ssa.BinOp)
					if !ok || bo.Op != token.LSS {
						continue
					}
					if call, ok := bo.Y.(*ssa.Call); ok {
						if b, isB := call.Call.Value.(*ssa.Builtin); isB && b.Name() == "len" {
							return x.valueOf(fr, call.Call.Args[0]), true
						}
					}
				}
			}
		}
		if name == "$map" {
			for _, ins := range e.loop.Header.Instrs {
				if nx, ok := ins.(*ssa.Next); ok {
					if rng, ok := nx.Iter.(*ssa.Range); ok {
						return x.valueOf(fr, rng.X), true
					}
				}
			}
		}
		if name == "$visited" {
			for _, ins := range e.loop.Header.Instrs {
				if nx, ok := ins.(*ssa.Next); ok {
					if rng, ok := nx.Iter.(*ssa.Range); ok {
						mt := rng.X.Type().Underlying().(*types.Map)
						_, ks := x.mapDomComp(mt)
						cname := "IT$visited$" + typeKey(mt.Key())
						h := x.comp(e.st, cname, arraySort(SInt, arraySort(ks, SBool)))
						it := x.valueOf(fr, rng).C[0]
						return Val{Sorts: []string{arraySort(ks, SBool)}, C: []string{sel(h, it)}}, true
					}
				}
			}
		}
		// loop-carried variables by source name, innermost loop first
		for l := e.loop; l != nil; l = enclosing(fr, l) {
			for _, ins := range l.Header.Instrs {
				phi, ok := ins.(*ssa.Phi)
				if !ok {
					break
				}
				if phi.Comment == name {
					if l == e.loop {
						return e.phiValue(phi), true
					}
					return x.valueOf(fr, phi), true
				}
			}
		}
	}
	// named locals through debug references
	if fr != nil {
		if v, ok := e.debugLookup(name); ok {
			return v, true
		}
	}
	// dtype constants
	if code, ok := dtypeCodes[name]; ok {
		return Val{T: x.prog.dtypeType, C: []string{fmt.Sprint(code)}}, true
	}
	// package-level sentinel values of the module (errors)
	if g := x.prog.findGlobal(name, fr); g != nil {
		if v, ok := x.globalValue(fr, g); ok {
			return v, true
		}
	}
	return Val{}, false
}

func enclosing(fr *Frame, l *Loop) *Loop {
	var best *Loop
	for _, o := range fr.loopList {
		if o != l && o.Body[l.Header] {
			if best == nil || best.Body[o.Header] {
				best = o
			}
		}
	}
	return best
}

// debugLookup finds the SSA value bound to a source-level local name whose definition
// dominates the current loop header (or any block, outside loops).
// reachingDef resolves a source variable at the current program point: the closest definition on
// the dominator chain, where a phi node named after the variable stands for the merge of the
// assignments in the branches it joins.
func (e *SpecEnv) reachingDef(name string) (Val, bool) {
	fr := e.fr
	for b := fr.curBlock; b != nil; b = b.Idom() {
		for k := len(b.Instrs) - 1; k >= 0; k-- {
			dr, ok := b.Instrs[k].(*ssa.DebugRef)
			if !ok || debugIdent(dr) != name {
				continue
			}
			if _, have := fr.vals[dr.X]; !have {
				if _, isc := dr.X.(*ssa.Const); !isc {
					continue
				}
			}
			if dr.IsAddr {
				return e.x.load(e.st, e.x.ptrAddr(fr, dr.X)), true
			}
			return e.x.valueOf(fr, dr.X), true
		}
		for _, ins := range b.Instrs {
			phi, ok := ins.(*ssa.Phi)
			if !ok {
				break
			}
			if phi.Comment == name {
				if _, have := fr.vals[phi]; have {
					return e.x.valueOf(fr, phi), true
				}
			}
		}
	}
	return Val{}, false
}

func (e *SpecEnv) debugLookup(name string) (Val, bool) {
	fr := e.fr
	if (e.loop == nil || e.atPoint) && fr.curBlock != nil {
		if v, ok := e.reachingDef(name); ok {
			return v, true
		}
	}
	var best ssa.Value
	var bestAddr bool
	var at *ssa.BasicBlock
	if e.loop != nil {
		at = e.loop.Header
	}
	for _, b := range fr.fn.Blocks {
		for _, ins := range b.Instrs {
			dr, ok := ins.(*ssa.DebugRef)
			if !ok {
				continue
			}
			id, ok := dr.Expr.(interface{ String() string })
			_ = id
			ident := debugIdent(dr)
			if ident != name {
				continue
			}
			defBlock := b
			if vi, ok := dr.X.(ssa.Instruction); ok {
				defBlock = vi.Block()
			}
			if _, have := fr.vals[dr.X]; !have {
				if _, isc := dr.X.(*ssa.Const); !isc {
					continue
				}
			}
			if at != nil && !(defBlock.Dominates(at)) {
				continue
			}
			if at != nil && e.loop.Body[defBlock] && defBlock != at {
				continue
			}
			if best == nil || defBlockOf(best, fr).Dominates(defBlock) {
				best = dr.X
				bestAddr = dr.IsAddr
			}
		}
	}
	if best == nil {
		return Val{}, false
	}
	if bestAddr {
		a := e.x.ptrAddr(fr, best)
		return e.x.load(e.st, a), true
	}
	return e.x.valueOf(fr, best), true
}

func defBlockOf(v ssa.Value, fr *Frame) *ssa.BasicBlock {
	if vi, ok := v.(ssa.Instruction); ok {
		return vi.Block()
	}
	return fr.fn.Blocks[0]
}

func (e *SpecEnv) eval(ex Expr) Val {
	x := e.x
	switch n := ex.(type) {
	case EInt:
		if n.S != "" {
			return specInt(n.S)
		}
		return specInt(intLit(n.V))
	case EBool:
		if n.V {
			return boolVal("true")
		}
		return boolVal("false")
	case EStr:
		return Val{T: types.Typ[types.String], C: []string{x.strLit(n.V)}}
	case ENil:
		return Val{T: types.Typ[types.UntypedNil], C: []string{"0"}}
	case EIdent:
		if v, ok := e.lookupName(n.Name); ok {
			return v
		}
		e.fail("unknown identifier %q", n.Name)
	case EOld:
		return e.inOld().eval(n.X)
	case EUnary:
		v := e.eval(n.X)
		switch n.Op {
		case "!":
			return boolVal(not(v.C[0]))
		case "-":
			return Val{T: v.T, C: []string{sub("0", v.C[0])}}
		}
	case EBinary:
		return e.evalBinary(n)
	case EQuant:
		env := e
		var decls []string
		for qi, qv := range n.Vars {
			sort, gt := specSort(x, qv.Type)
			// canonical names (variable + nesting depth): the same clause evaluated twice yields the
			// same text, so provers see one formula instead of two alpha-equivalent ones
			name := fmt.Sprintf("%s_d%d", sanitize(qv.Name), e.qd+qi)
			decls = append(decls, fmt.Sprintf("(%s %s)", name, sort))
			if gt != nil {
				env = env.with(qv.Name, Val{T: gt, C: []string{name}})
			} else {
				env = env.with(qv.Name, Val{Sorts: []string{sort}, C: []string{name}})
			}
		}
		if env == e {
			cp := *e
			env = &cp
		}
		env.qd = e.qd + len(n.Vars)
		body := env.eval(n.Body)
		q := "exists"
		if n.Forall {
			q = "forall"
		}
		return boolVal(fmt.Sprintf("(%s (%s) %s)", q, strings.Join(decls, " "), body.C[0]))
	case EIndex:
		return e.evalIndex(n)
	case ESlice:
		sv := e.eval(n.X)
		if !isSlice(sv.T) {
			e.fail("slicing a non-slice %s", n.X)
		}
		lo, hi := "0", sv.slen()
		if n.Lo != nil {
			lo = e.eval(n.Lo).C[0]
		}
		if n.Hi != nil {
			hi = e.eval(n.Hi).C[0]
		}
		return Val{T: sv.T, C: []string{sv.base(), add(sv.off(), lo), sub(hi, lo), sub(sv.scap(), lo)}}
	case EField:
		return e.evalField(n)
	case ECall:
		return e.evalCall(n)
	}
	e.fail("cannot evaluate %s", ex)
	return Val{}
}

func (x *Exec) nextQ() int { x.qcount++; return x.qcount }

func specSort(x *Exec, t string) (string, types.Type) {
	switch t {
	case "int", "":
		return SInt, types.Typ[types.Int]
	case "string":
		return SStr, types.Typ[types.String]
	case "bool":
		return SBool, types.Typ[types.Bool]
	case "ref":
		return SInt, types.Typ[types.Int]
	case "dtype":
		return SInt, x.prog.dtypeType
	}
	return SInt, types.Typ[types.Int]
}

func (e *SpecEnv) isNilLit(v Val) bool {
	b, ok := v.T.(*types.Basic)
	return ok && b.Kind() == types.UntypedNil
}

func (e *SpecEnv) valEq(a, b Val) string {
	if e.isNilLit(a) {
		a, b = b, a
	}
	if e.isNilLit(b) {
		switch {
		case isSlice(a.T):
			return eq(a.base(), "0")
		case isIface(a.T):
			return eq(a.tag(), "0")
		default:
			return eq(a.C[0], "0")
		}
	}
	if len(a.C) != len(b.C) {
		e.fail("comparison of values with different layouts (%v vs %v)", a.T, b.T)
	}
	if a.T != nil && isFloat(a.T) {
		// bit-level identity is what "exact values" means; use = (NaN payload aware) not fp.eq
		return eq(a.C[0], b.C[0])
	}
	var cs []string
	for k := range a.C {
		cs = append(cs, eq(a.C[k], b.C[k]))
	}
	return and(cs...)
}

func (e *SpecEnv) evalBinary(n EBinary) Val {
	switch n.Op {
	case "&&":
		return boolVal(and(e.evalB(n.X), e.evalB(n.Y)))
	case "||":
		return boolVal(or(e.evalB(n.X), e.evalB(n.Y)))
	case "==>":
		return boolVal(implies(e.evalB(n.X), e.evalB(n.Y)))
	case "<==>":
		a, b := e.evalB(n.X), e.evalB(n.Y)
		if strings.Contains(a, "(forall ") || strings.Contains(a, "(exists ") || strings.Contains(b, "(forall ") || strings.Contains(b, "(exists ") {
			// two implications keep quantifiers in positions of definite polarity
			return boolVal(and(implies(a, b), implies(b, a)))
		}
		return boolVal(eq(a, b))
	case "in":
		k := e.eval(n.X)
		m := e.eval(n.Y)
		if m.T == nil && len(m.Sorts) == 1 {
			return boolVal(sel(m.C[0], k.C[0]))
		}
		mt, ok := m.T.Underlying().(*types.Map)
		if !ok {
			e.fail("'in' needs a map or set, got %v", m.T)
		}
		return boolVal(and(not(eq(m.C[0], "0")), sel(e.x.mapDom(e.st, mt, m.C[0]), k.C[0])))
	}
	a := e.eval(n.X)
	b := e.eval(n.Y)
	switch n.Op {
	case "==":
		return boolVal(e.valEq(a, b))
	case "!=":
		return boolVal(not(e.valEq(a, b)))
	}
	if a.T != nil && isFloat(a.T) {
		switch n.Op {
		case "<":
			return boolVal(sx("fp.lt", a.C[0], b.C[0]))
		case "<=":
			return boolVal(sx("fp.leq", a.C[0], b.C[0]))
		case ">":
			return boolVal(sx("fp.gt", a.C[0], b.C[0]))
		case ">=":
			return boolVal(sx("fp.geq", a.C[0], b.C[0]))
		}
		if opn, ok := map[string]string{"+": "add", "-": "sub", "*": "mul", "/": "div"}[n.Op]; ok {
			return Val{T: a.T, C: []string{fpArith(opn, layout(a.T)[0].Sort, a.C[0], b.C[0])}}
		}
		e.fail("float operator %s in specs is not supported: %s", n.Op, n)
	}
	ai, bi := a.C[0], b.C[0]
	switch n.Op {
	case "<", "<=", ">", ">=":
		return boolVal(sx(n.Op, ai, bi))
	case "+":
		return specInt(add(ai, bi))
	case "-":
		return specInt(sub(ai, bi))
	case "*":
		return specInt(mul(ai, bi))
	case "/":
		return specInt(sx("godiv", ai, bi))
	case "%":
		return specInt(sx("gomod", ai, bi))
	}
	e.fail("unknown operator %s", n.Op)
	return Val{}
}

func (e *SpecEnv) evalB(ex Expr) string {
	v := e.eval(ex)
	if len(v.C) != 1 {
		e.fail("not boolean: %s", ex)
	}
	return v.C[0]
}

func (e *SpecEnv) evalIndex(n EIndex) Val {
	x := e.x
	base := e.eval(n.X)
	idx := e.eval(n.I)
	if base.T == nil {
		// raw SMT array
		if len(base.Sorts) == 1 && strings.HasPrefix(base.Sorts[0], "(Array ") {
			es := arrayElemSort(base.Sorts[0])
			return sortedVal(es, sel(base.C[0], idx.C[0]))
		}
		e.fail("indexing a non-array spec value")
	}
	switch u := base.T.Underlying().(type) {
	case *types.Slice:
		a := Addr{Prefix: "E$" + typeKey(u.Elem()), Ref: base.base(), Idx: add(base.off(), idx.C[0]), T: u.Elem()}
		return x.load(e.st, a)
	case *types.Map:
		return x.mapGet(e.st, u, base.C[0], idx.C[0])
	case *types.Pointer:
		if at, ok := u.Elem().Underlying().(*types.Array); ok {
			a := Addr{Prefix: "E$" + typeKey(at.Elem()), Ref: base.C[0], Idx: idx.C[0], T: at.Elem()}
			return x.load(e.st, a)
		}
	}
	e.fail("cannot index %v", base.T)
	return Val{}
}

func arrayElemSort(s string) string {
	// "(Array K V)" -> V
	inner := s[len("(Array ") : len(s)-1]
	parts := sexprSplit(inner)
	if len(parts) == 2 {
		return parts[1]
	}
	return SInt
}

func sortedVal(sort, term string) Val {
	switch sort {
	case SInt:
		return specInt(term)
	case SBool:
		return boolVal(term)
	case SStr:
		return Val{T: types.Typ[types.String], C: []string{term}}
	case SF32:
		return Val{T: types.Typ[types.Float32], C: []string{term}}
	case SF64:
		return Val{T: types.Typ[types.Float64], C: []string{term}}
	}
	return Val{Sorts: []string{sort}, C: []string{term}}
}

func (e *SpecEnv) evalField(n EField) Val {
	x := e.x
	base := e.eval(n.X)
	if base.T == nil {
		e.fail("field access on spec value")
	}
	t := base.T
	ptr := false
	if p, ok := t.Underlying().(*types.Pointer); ok {
		t = p.Elem()
		ptr = true
	}
	stt, ok := t.Underlying().(*types.Struct)
	if !ok {
		e.fail("field access .%s on non-struct %v", n.F, base.T)
	}
	for i := 0; i < stt.NumFields(); i++ {
		if stt.Field(i).Name() == n.F {
			lo, hi := fieldRange(stt, i)
			if ptr {
				a := x.objAddr(t, base.C[0])
				a.Lo = lo
				a.T = stt.Field(i).Type()
				return x.load(e.st, a)
			}
			return Val{T: stt.Field(i).Type(), C: base.C[lo:hi]}
		}
	}
	e.fail("no field %s in %v", n.F, t)
	return Val{}
}

func (e *SpecEnv) evalCall(n ECall) Val {
	x := e.x
	// spec macros
	if sf, ok := x.cs.Specs[n.Fn]; ok {
		if len(sf.Params) != len(n.Args) {
			e.fail("spec function %s expects %d arguments", n.Fn, len(sf.Params))
		}
		if e.depth > 24 {
			e.fail("spec function recursion too deep in %s", n.Fn)
		}
		env := *e
		env.bound = map[string]Val{}
		env.vars = map[string]Val{}
		env.loop = nil
		for k, p := range sf.Params {
			env.bound[p.Name] = e.eval(n.Args[k])
		}
		env.depth = e.depth + 1
		return env.eval(sf.Body)
	}
	if h, ok := specBuiltins[n.Fn]; ok {
		return h(e, n)
	}
	if sig, ok := x.prog.preludeSigs[n.Fn]; ok {
		if len(sig.args) != len(n.Args) {
			e.fail("prelude function %s expects %d arguments", n.Fn, len(sig.args))
		}
		var ts []string
		for _, a := range n.Args {
			v := e.eval(a)
			if len(v.C) != 1 {
				e.fail("prelude function argument must be a single term")
			}
			ts = append(ts, v.C[0])
		}
		if len(ts) == 0 {
			return sortedVal(sig.res, n.Fn)
		}
		return sortedVal(sig.res, sx(n.Fn, ts...))
	}
	if strings.HasPrefix(n.Fn, "math_") || strings.HasPrefix(n.Fn, "math32_") {
		// the Go math library (float64) and gorgonia's math32 (float32): uninterpreted, shared with
		// the trusted models
		srt := SF64
		if strings.HasPrefix(n.Fn, "math32_") {
			srt = SF32
		}
		if len(n.Args) != 1 {
			e.fail("%s takes one argument", n.Fn)
		}
		x.uninterp(n.Fn, []string{srt}, srt)
		return sortedVal(srt, sx(n.Fn, e.eval(n.Args[0]).C[0]))
	}
	if strings.HasPrefix(n.Fn, "k_") {
		// abstract content kernels (Int^n -> Int), shared with the trusted models
		var ts []string
		for _, a := range n.Args {
			ts = append(ts, e.eval(a).C[0])
		}
		return specInt(sx(x.ufn(n.Fn, len(ts)), ts...))
	}
	e.fail("unknown function %s", n.Fn)
	return Val{}
}

type specBuiltin func(e *SpecEnv, n ECall) Val

var specBuiltins map[string]specBuiltin

func init() {
	specBuiltins = map[string]specBuiltin{
		"len": func(e *SpecEnv, n ECall) Val {
			v := e.eval(n.Args[0])
			switch {
			case isSlice(v.T):
				return specInt(v.slen())
			case isString(v.T):
				return specInt(sx("str_len", v.C[0]))
			}
			e.fail("len of %v", v.T)
			return Val{}
		},
		"cap": func(e *SpecEnv, n ECall) Val { return specInt(e.eval(n.Args[0]).scap()) },
		"base": func(e *SpecEnv, n ECall) Val { return specInt(e.eval(n.Args[0]).base()) },
		"off":  func(e *SpecEnv, n ECall) Val { return specInt(e.eval(n.Args[0]).off()) },
		"ref": func(e *SpecEnv, n ECall) Val {
			v := e.eval(n.Args[0])
			if isIface(v.T) {
				return specInt(v.pay())
			}
			return specInt(v.C[0])
		},
		"typeof": func(e *SpecEnv, n ECall) Val { return specInt(e.eval(n.Args[0]).tag()) },
		"arr": func(e *SpecEnv, n ECall) Val {
			v := e.eval(n.Args[0])
			u, ok := v.T.Underlying().(*types.Slice)
			if !ok {
				e.fail("arr() of non-slice")
			}
			ly := layout(u.Elem())
			if len(ly) != 1 {
				e.fail("arr() needs single-component elements")
			}
			h := e.x.comp(e.st, fmt.Sprintf("E$%s$0", typeKey(u.Elem())), elemSort(ly[0].Sort))
			return Val{Sorts: []string{arraySort(SInt, ly[0].Sort)}, C: []string{sel(h, v.base())}}
		},
		"ite": func(e *SpecEnv, n ECall) Val {
			c := e.evalB(n.Args[0])
			a := e.eval(n.Args[1])
			b := e.eval(n.Args[2])
			if a.T != nil && isBool(a.T) && len(a.C) == 1 {
				// boolean ite as two implications: keeps quantifiers out of ite-terms
				return boolVal(and(implies(c, a.C[0]), implies(not(c), b.C[0])))
			}
			out := Val{T: a.T, Sorts: a.Sorts, C: make([]string, len(a.C))}
			for k := range a.C {
				out.C[k] = ite(c, a.C[k], b.C[k])
			}
			return out
		},
		"fresh": func(e *SpecEnv, n ECall) Val {
			v := e.eval(n.Args[0])
			var r string
			switch {
			case isSlice(v.T):
				r = v.base()
			case isIface(v.T):
				r = v.pay()
			default:
				r = v.C[0]
			}
			return boolVal(and(sx(">=", r, e.allocOld), sx("<", r, e.x.alloc(e.st))))
		},
		"nelems": func(e *SpecEnv, n ECall) Val {
			v := e.eval(n.Args[0])
			u, ok := v.T.Underlying().(*types.Slice)
			if !ok || len(layout(u.Elem())) != 1 {
				e.fail("nelems() needs a slice of integers")
			}
			h := e.x.comp(e.st, fmt.Sprintf("E$%s$0", typeKey(u.Elem())), elemSort(SInt))
			return specInt(sx("prod", sel(h, v.base()), v.off(), v.slen()))
		},
		"allocated": func(e *SpecEnv, n ECall) Val {
			v := e.eval(n.Args[0])
			var r string
			switch {
			case isSlice(v.T):
				r = v.base()
			case isIface(v.T):
				r = v.pay()
			default:
				r = v.C[0]
			}
			return boolVal(and(sx("<=", "0", r), sx("<", r, e.x.alloc(e.st))))
		},
		"sameslice": func(e *SpecEnv, n ECall) Val {
			a := e.eval(n.Args[0])
			b := e.eval(n.Args[1])
			return boolVal(and(eq(a.base(), b.base()), eq(a.off(), b.off()), eq(a.slen(), b.slen())))
		},
		"tagof": func(e *SpecEnv, n ECall) Val {
			s, ok := n.Args[0].(EStr)
			if !ok {
				e.fail("tagof needs a string literal type name")
			}
			t := e.x.typeByName(s.V)
			if t == nil {
				e.fail("tagof: unknown type %q", s.V)
			}
			return specInt(e.x.typeTag(t))
		},
		"unbox_slice_len": func(e *SpecEnv, n ECall) Val {
			// length of the slice boxed in an interface, given its element type name
			v := e.eval(n.Args[0])
			s := n.Args[1].(EStr)
			t := e.x.typeByName(s.V)
			if t == nil {
				e.fail("unknown type %q", s.V)
			}
			return specInt(e.x.unbox(e.st, v, t).slen())
		},
		// the value of a tensor at the generic element position (see tensor_models.go: generic element)
		"gen32": func(e *SpecEnv, n ECall) Val {
			return sortedVal(SF32, e.x.genElem(SF32, e.x.tCont(e.st, tensorRef(e.eval(n.Args[0])))))
		},
		"gen64": func(e *SpecEnv, n ECall) Val {
			return sortedVal(SF64, e.x.genElem(SF64, e.x.tCont(e.st, tensorRef(e.eval(n.Args[0])))))
		},
		"genb": func(e *SpecEnv, n ECall) Val {
			return boolVal(e.x.genElem(SBool, e.x.tCont(e.st, tensorRef(e.eval(n.Args[0])))))
		},
		"f32": func(e *SpecEnv, n ECall) Val {
			v := e.eval(n.Args[0])
			if v.T != nil && isFloat(v.T) && layout(v.T)[0].Sort == SF32 {
				return v
			}
			return sortedVal(SF32, sx("(_ to_fp 8 24)", "RNE", v.C[0]))
		},
		"f64": func(e *SpecEnv, n ECall) Val {
			v := e.eval(n.Args[0])
			if v.T != nil && isFloat(v.T) && layout(v.T)[0].Sort == SF64 {
				return v
			}
			return sortedVal(SF64, sx("(_ to_fp 11 53)", "RNE", v.C[0]))
		},
		// ltzero(v): v < 0 for a value of any numeric type (floats: IEEE comparison, false for NaN)
		"ltzero": func(e *SpecEnv, n ECall) Val {
			v := e.eval(n.Args[0])
			if v.T != nil && isFloat(v.T) {
				if layout(v.T)[0].Sort == SF32 {
					return boolVal(sx("fp.lt", v.C[0], "((_ to_fp 8 24) RNE 0.0)"))
				}
				return boolVal(sx("fp.lt", v.C[0], "((_ to_fp 11 53) RNE 0.0)"))
			}
			return boolVal(sx("<", v.C[0], "0"))
		},
		// gomul(a, b): Go's a * b on the operands' type (sized integers wrap, floats round)
		"gomul": func(e *SpecEnv, n ECall) Val {
			a, b := e.eval(n.Args[0]), e.eval(n.Args[1])
			if a.T != nil && isFloat(a.T) {
				return Val{T: a.T, C: []string{fpArith("mul", layout(a.T)[0].Sort, a.C[0], b.C[0])}}
			}
			r := mul(a.C[0], b.C[0])
			if a.T != nil && isInteger(a.T) {
				if bits, _ := intBits(a.T); bits < 64 {
					r = wrapInt(r, a.T)
				}
			}
			return Val{T: a.T, C: []string{r}}
		},
		// boxed32(ref) / boxed64(ref): the float held by the interface box at ref (scalar operands of
		// the tensor kernels appear in contents as 1000000 + ref)
		"boxed32": func(e *SpecEnv, n ECall) Val {
			return e.x.load(e.st, Addr{Prefix: "B$" + typeKey(types.Typ[types.Float32]), Ref: e.eval(n.Args[0]).C[0], T: types.Typ[types.Float32]})
		},
		"boxed64": func(e *SpecEnv, n ECall) Val {
			return e.x.load(e.st, Addr{Prefix: "B$" + typeKey(types.Typ[types.Float64]), Ref: e.eval(n.Args[0]).C[0], T: types.Typ[types.Float64]})
		},
		"isnan": func(e *SpecEnv, n ECall) Val { return boolVal(sx("fp.isNaN", e.eval(n.Args[0]).C[0])) },
		"isinf": func(e *SpecEnv, n ECall) Val { return boolVal(sx("fp.isInfinite", e.eval(n.Args[0]).C[0])) },
		"fpeq": func(e *SpecEnv, n ECall) Val {
			return boolVal(sx("fp.eq", e.eval(n.Args[0]).C[0], e.eval(n.Args[1]).C[0]))
		},
		// goconv(v, "T"): Go's numeric conversion T(v) from the static type of v (T may be a type
		// parameter of the contracted generic function): the same term the engine gives ssa.Convert
		"goconv": func(e *SpecEnv, n ECall) Val {
			if len(n.Args) != 2 {
				e.fail("goconv takes a value and a type name")
			}
			v := e.eval(n.Args[0])
			s, ok := n.Args[1].(EStr)
			if !ok {
				e.fail("goconv: second argument must be a type name string")
			}
			var t types.Type
			if tt, bound := e.x.tsubst[strings.TrimSpace(s.V)]; bound {
				// the binding of the contract's owner (set while a callee's contract is evaluated
				// at a call site) wins over the frame's own type parameters
				t = tt
			}
			if t == nil && e.fr != nil && e.fr.fn != nil {
				// loop invariants and hints are evaluated outside withTypeArgs: resolve the type
				// parameters of the function at hand directly
				if o := e.fr.fn.Origin(); o != nil && o.TypeParams() != nil {
					targs := e.fr.fn.TypeArgs()
					for k := 0; k < o.TypeParams().Len() && k < len(targs); k++ {
						if o.TypeParams().At(k).Obj().Name() == strings.TrimSpace(s.V) {
							t = targs[k]
						}
					}
				}
			}
			if t == nil {
				t = e.x.typeByName(s.V)
			}
			if t == nil {
				e.fail("unknown type %q", s.V)
			}
			r, ok := e.x.convertTerm(v, t)
			if !ok {
				e.fail("goconv: no numeric conversion from %v to %s", v.T, s.V)
			}
			return r
		},
		"unbox": func(e *SpecEnv, n ECall) Val {
			v := e.eval(n.Args[0])
			s := n.Args[1].(EStr)
			t := e.x.typeByName(s.V)
			if t == nil {
				e.fail("unknown type %q", s.V)
			}
			return e.x.unbox(e.st, v, t)
		},
	}
	registerGhostBuiltins()
	registerOperatorBuiltins()
}

// ---------------------------------------------------------------------------------------
// modifies locations

// LocSet designates (part of) one object: the listed heap components at reference Ref,
// optionally restricted to the element index range [Lo,Hi).
func (x *Exec) evalLoc(env *SpecEnv, ml ModLoc) (out []LocSet) {
	defer func() {
		if r := recover(); r != nil {
			if se, ok := r.(specErr); ok {
				x.specErrors = append(x.specErrors, fmt.Sprintf("spec error in %s: modifies %s: %s", x.topLabel, ml.Src, string(se)))
				out = nil
				return
			}
			panic(r)
		}
	}()
	switch n := ml.E.(type) {
	case ESlice:
		sv := env.eval(n.X)
		u, ok := sv.T.Underlying().(*types.Slice)
		if !ok {
			env.fail("modifies x[*]: x must be a slice")
		}
		lo, hi := sv.off(), add(sv.off(), sv.slen())
		if n.Lo != nil {
			lo = add(sv.off(), env.eval(n.Lo).C[0])
		}
		if n.Hi != nil {
			hi = add(sv.off(), env.eval(n.Hi).C[0])
		}
		ls := LocSet{Ref: sv.base(), Lo: lo, Hi: hi, Src: ml.Src}
		for k, c := range layout(u.Elem()) {
			name := fmt.Sprintf("E$%s$%d", typeKey(u.Elem()), k)
			x.comp(env.st, name, elemSort(c.Sort))
			ls.Comps = append(ls.Comps, name)
		}
		return []LocSet{ls}
	case EField:
		base := env.eval(n.X)
		t := base.T
		p, ok := t.Underlying().(*types.Pointer)
		if !ok {
			env.fail("modifies x.f: x must be a pointer to a struct")
		}
		stt := p.Elem().Underlying().(*types.Struct)
		for i := 0; i < stt.NumFields(); i++ {
			if stt.Field(i).Name() == n.F {
				lo, hi := fieldRange(stt, i)
				ls := LocSet{Ref: base.C[0], Src: ml.Src}
				ly := layout(p.Elem())
				for k := lo; k < hi; k++ {
					name := fmt.Sprintf("F$%s$%d", typeKey(p.Elem()), k)
					x.comp(env.st, name, fieldSort(ly[k].Sort))
					ls.Comps = append(ls.Comps, name)
				}
				return []LocSet{ls}
			}
		}
		env.fail("no field %s", n.F)
	case ECall:
		if h, ok := ghostLocs[n.Fn]; ok {
			return h(env, n, ml.Src)
		}
		env.fail("unknown location function %s", n.Fn)
	default:
		v := env.eval(ml.E)
		switch u := v.T.Underlying().(type) {
		case *types.Map:
			ls := LocSet{Ref: v.C[0], Src: ml.Src}
			dn, ks := x.mapDomComp(u)
			x.comp(env.st, dn, arraySort(SInt, arraySort(ks, SBool)))
			ls.Comps = append(ls.Comps, dn)
			for k, c := range layout(u.Elem()) {
				name := x.mapValComp(u, k)
				x.comp(env.st, name, arraySort(SInt, arraySort(ks, c.Sort)))
				ls.Comps = append(ls.Comps, name)
			}
			return []LocSet{ls}
		case *types.Pointer:
			ls := LocSet{Ref: v.C[0], Src: ml.Src}
			a := x.objAddr(u.Elem(), v.C[0])
			for k, c := range layout(u.Elem()) {
				name := fmt.Sprintf("%s$%d", a.Prefix, k)
				x.comp(env.st, name, fieldSort(c.Sort))
				ls.Comps = append(ls.Comps, name)
			}
			return []LocSet{ls}
		}
		env.fail("unsupported modifies location %s", ml.Src)
	}
	return nil
}
