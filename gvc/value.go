package main

// Symbolic values: every Go value is a list of SMT terms ("components") laid out by type.

import (
	"fmt"
	"go/types"
	"regexp"
	"strings"
)

type Val struct {
	T types.Type // Go type; nil for spec-only values (then Sorts is set)
	C []string
	// Sorts is only set for spec-only values without a Go type.
	Sorts []string
}

var (
	byteRe = regexp.MustCompile(`\bbyte\b`)
	runeRe = regexp.MustCompile(`\brune\b`)
	anyRe  = regexp.MustCompile(`\bany\b`)
)

type comp struct {
	Suffix string
	Sort   string
}

func isNamed(t types.Type, pkgSuffix, name string) bool {
	n, ok := t.(*types.Named)
	if !ok {
		if a, ok2 := t.(*types.Alias); ok2 {
			return isNamed(types.Unalias(a), pkgSuffix, name)
		}
		return false
	}
	obj := n.Obj()
	if obj.Name() != name || obj.Pkg() == nil {
		return false
	}
	return strings.HasSuffix(obj.Pkg().Path(), pkgSuffix)
}

func isDtype(t types.Type) bool { return isNamed(t, "gorgonia.org/tensor", "Dtype") }

// layout returns the SMT components of a Go type.
func layout(t types.Type) []comp {
	if isDtype(t) {
		return []comp{{"", SInt}}
	}
	switch u := t.Underlying().(type) {
	case *types.Basic:
		switch {
		case u.Info()&types.IsBoolean != 0:
			return []comp{{"", SBool}}
		case u.Info()&types.IsInteger != 0:
			return []comp{{"", SInt}}
		case u.Kind() == types.Float32:
			return []comp{{"", SF32}}
		case u.Kind() == types.Float64, u.Kind() == types.UntypedFloat:
			return []comp{{"", SF64}}
		case u.Info()&types.IsString != 0:
			return []comp{{"", SStr}}
		case u.Kind() == types.UnsafePointer, u.Kind() == types.UntypedNil:
			return []comp{{"", SInt}}
		case u.Info()&types.IsComplex != 0:
			return []comp{{"re", SF64}, {"im", SF64}}
		}
	case *types.Pointer, *types.Map, *types.Chan, *types.Signature:
		return []comp{{"", SInt}}
	case *types.Slice:
		return []comp{{"base", SInt}, {"off", SInt}, {"len", SInt}, {"cap", SInt}}
	case *types.Interface:
		return []comp{{"tag", SInt}, {"pay", SInt}}
	case *types.Struct:
		var out []comp
		for i := 0; i < u.NumFields(); i++ {
			for _, c := range layout(u.Field(i).Type()) {
				out = append(out, comp{fmt.Sprintf("f%d%s", i, c.Suffix), c.Sort})
			}
		}
		return out
	case *types.Tuple:
		var out []comp
		for i := 0; i < u.Len(); i++ {
			for _, c := range layout(u.At(i).Type()) {
				out = append(out, comp{fmt.Sprintf("r%d%s", i, c.Suffix), c.Sort})
			}
		}
		return out
	case *types.Array:
		// arrays by value are modelled as a reference to an element object
		return []comp{{"", SInt}}
	case *types.TypeParam:
		return []comp{{"", SInt}}
	}
	return []comp{{"", SInt}}
}

// fieldRange returns the [lo,hi) component range of field i of struct type st.
func fieldRange(st *types.Struct, i int) (int, int) {
	lo := 0
	for k := 0; k < i; k++ {
		lo += len(layout(st.Field(k).Type()))
	}
	return lo, lo + len(layout(st.Field(i).Type()))
}

func tupleRange(tp *types.Tuple, i int) (int, int) {
	lo := 0
	for k := 0; k < i; k++ {
		lo += len(layout(tp.At(k).Type()))
	}
	return lo, lo + len(layout(tp.At(i).Type()))
}

// typeKey returns an identifier-safe name for a type, used in heap component names.
func typeKey(t types.Type) string {
	if isDtype(t) {
		return "Dtype"
	}
	s := types.TypeString(t, func(p *types.Package) string { return p.Name() })
	s = byteRe.ReplaceAllString(s, "uint8")
	s = runeRe.ReplaceAllString(s, "int32")
	s = anyRe.ReplaceAllString(s, "interface{}")
	r := strings.NewReplacer("*", "P_", "[]", "S_", "[", "A", "]", "_", ".", "_", " ", "", "{", "L", "}", "R", ";", "_", ",", "_", "(", "_", ")", "_", "/", "_", "-", "_", "|", "_", "~", "_")
	return r.Replace(s)
}

// zero value of a type, as components.
func zeroVal(t types.Type) Val {
	var cs []string
	for _, c := range layout(t) {
		cs = append(cs, zeroOfSort(c.Sort))
	}
	return Val{T: t, C: cs}
}

func zeroOfSort(s string) string {
	switch s {
	case SInt:
		return "0"
	case SBool:
		return "false"
	case SF32:
		return "(_ +zero 8 24)"
	case SF64:
		return "(_ +zero 11 53)"
	case SStr:
		return "str_empty"
	}
	return "0"
}

func intVal(t types.Type, term string) Val { return Val{T: t, C: []string{term}} }
func boolVal(term string) Val             { return Val{T: types.Typ[types.Bool], C: []string{term}} }
func specInt(term string) Val             { return Val{T: types.Typ[types.Int], C: []string{term}} }

// slice accessors
func (v Val) base() string { return v.C[0] }
func (v Val) off() string  { return v.C[1] }
func (v Val) slen() string { return v.C[2] }
func (v Val) scap() string { return v.C[3] }

// interface accessors
func (v Val) tag() string { return v.C[0] }
func (v Val) pay() string { return v.C[1] }

func isSlice(t types.Type) bool {
	if t == nil {
		return false
	}
	_, ok := t.Underlying().(*types.Slice)
	return ok
}
func isIface(t types.Type) bool {
	if t == nil || isDtype(t) {
		return false
	}
	_, ok := t.Underlying().(*types.Interface)
	return ok
}
func isMap(t types.Type) bool {
	if t == nil {
		return false
	}
	_, ok := t.Underlying().(*types.Map)
	return ok
}
func isPointer(t types.Type) bool {
	if t == nil {
		return false
	}
	_, ok := t.Underlying().(*types.Pointer)
	return ok
}
func isString(t types.Type) bool {
	if t == nil {
		return false
	}
	b, ok := t.Underlying().(*types.Basic)
	return ok && b.Info()&types.IsString != 0
}
func isBool(t types.Type) bool {
	if t == nil {
		return false
	}
	b, ok := t.Underlying().(*types.Basic)
	return ok && b.Info()&types.IsBoolean != 0
}
func isInteger(t types.Type) bool {
	if t == nil {
		return false
	}
	b, ok := t.Underlying().(*types.Basic)
	return ok && b.Info()&types.IsInteger != 0
}
func isFloat(t types.Type) bool {
	if t == nil {
		return false
	}
	b, ok := t.Underlying().(*types.Basic)
	return ok && b.Info()&types.IsFloat != 0
}
func isStructT(t types.Type) bool {
	if t == nil || isDtype(t) {
		return false
	}
	_, ok := t.Underlying().(*types.Struct)
	return ok
}

// intRange returns the value range of a sized integer type; ok=false for int/int64/uint64-like
// types that are treated as mathematical (uint kinds get a lower bound only).
func intRange(t types.Type) (lo, hi string, hasLo, hasHi bool) {
	b, ok := t.Underlying().(*types.Basic)
	if !ok {
		return
	}
	switch b.Kind() {
	case types.Int8:
		return "(- 128)", "127", true, true
	case types.Int16:
		return "(- 32768)", "32767", true, true
	case types.Int32:
		return "(- 2147483648)", "2147483647", true, true
	case types.Uint8:
		return "0", "255", true, true
	case types.Uint16:
		return "0", "65535", true, true
	case types.Uint32:
		return "0", "4294967295", true, true
	case types.Uint64, types.Uint, types.Uintptr:
		return "0", "18446744073709551615", true, true
	case types.Int64, types.Int:
		return "(- 9223372036854775808)", "9223372036854775807", true, true
	}
	return
}

// wrapInt wraps a mathematical integer term into the range of integer type t (Go conversion semantics).
func wrapInt(term string, t types.Type) string {
	b, ok := t.Underlying().(*types.Basic)
	if !ok {
		return term
	}
	switch b.Kind() {
	case types.Int8:
		return sx("-", sx("mod", sx("+", term, "128"), "256"), "128")
	case types.Int16:
		return sx("-", sx("mod", sx("+", term, "32768"), "65536"), "32768")
	case types.Int32:
		return sx("-", sx("mod", sx("+", term, "2147483648"), "4294967296"), "2147483648")
	case types.Uint8:
		return sx("mod", term, "256")
	case types.Uint16:
		return sx("mod", term, "65536")
	case types.Uint32:
		return sx("mod", term, "4294967296")
	case types.Uint64, types.Uint, types.Uintptr:
		return sx("mod", term, "18446744073709551616")
	case types.Int64, types.Int:
		return sx("-", sx("mod", sx("+", term, "9223372036854775808"), "18446744073709551616"), "9223372036854775808")
	}
	return term
}

func intBits(t types.Type) (bits int, signed bool) {
	b, ok := t.Underlying().(*types.Basic)
	if !ok {
		return 64, true
	}
	switch b.Kind() {
	case types.Int8:
		return 8, true
	case types.Int16:
		return 16, true
	case types.Int32:
		return 32, true
	case types.Int64, types.Int:
		return 64, true
	case types.Uint8:
		return 8, false
	case types.Uint16:
		return 16, false
	case types.Uint32:
		return 32, false
	case types.Uint64, types.Uint, types.Uintptr:
		return 64, false
	}
	return 64, true
}
