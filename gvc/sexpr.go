package main

// S-expression utilities: skolemisation of the goal and ground pre-instantiation of quantified
// hypotheses at the goal's index terms. Instances of universally quantified hypotheses are
// logical consequences, so adding them is sound; they make proofs independent of the solvers'
// trigger selection.

import (
	"fmt"
	"sort"
	"strings"
)

type sx_ struct {
	atom string
	kids []*sx_
}

func parseSexpr(s string) *sx_ {
	pos := 0
	var parse func() *sx_
	skip := func() {
		for pos < len(s) && (s[pos] == ' ' || s[pos] == '\n' || s[pos] == '\t') {
			pos++
		}
	}
	parse = func() *sx_ {
		skip()
		if pos >= len(s) {
			return nil
		}
		if s[pos] == '(' {
			pos++
			n := &sx_{}
			for {
				skip()
				if pos >= len(s) {
					return n
				}
				if s[pos] == ')' {
					pos++
					return n
				}
				k := parse()
				if k == nil {
					return n
				}
				n.kids = append(n.kids, k)
			}
		}
		start := pos
		if s[pos] == '|' {
			pos++
			for pos < len(s) && s[pos] != '|' {
				pos++
			}
			pos++
			return &sx_{atom: s[start:pos]}
		}
		for pos < len(s) && s[pos] != ' ' && s[pos] != '(' && s[pos] != ')' && s[pos] != '\n' && s[pos] != '\t' {
			pos++
		}
		return &sx_{atom: s[start:pos]}
	}
	return parse()
}

func (n *sx_) String() string {
	if n == nil {
		return ""
	}
	if n.kids == nil && n.atom != "" {
		return n.atom
	}
	var b strings.Builder
	n.write(&b)
	return b.String()
}

func (n *sx_) write(b *strings.Builder) {
	if n.kids == nil && n.atom != "" {
		b.WriteString(n.atom)
		return
	}
	b.WriteByte('(')
	for i, k := range n.kids {
		if i > 0 {
			b.WriteByte(' ')
		}
		k.write(b)
	}
	b.WriteByte(')')
}

func (n *sx_) isList() bool { return n.atom == "" }
func (n *sx_) head() string {
	if n.isList() && len(n.kids) > 0 && !n.kids[0].isList() {
		return n.kids[0].atom
	}
	return ""
}

func substAtom(n *sx_, name string, repl *sx_) *sx_ {
	if !n.isList() {
		if n.atom == name {
			return repl
		}
		return n
	}
	// do not substitute under a binder of the same name
	if h := n.head(); (h == "forall" || h == "exists") && len(n.kids) == 3 {
		for _, b := range n.kids[1].kids {
			if len(b.kids) == 2 && b.kids[0].atom == name {
				return n
			}
		}
	}
	out := &sx_{kids: make([]*sx_, len(n.kids))}
	changed := false
	for i, k := range n.kids {
		out.kids[i] = substAtom(k, name, repl)
		if out.kids[i] != k {
			changed = true
		}
	}
	if !changed {
		return n
	}
	return out
}

// stripBang removes (! body :pattern ...) annotations.
func stripBang(n *sx_) *sx_ {
	if n.head() == "!" && len(n.kids) >= 2 {
		return n.kids[1]
	}
	return n
}

// singleBinder returns the variable and sort of (forall ((v S)) body) for S in {Int, Str}.
func singleBinder(n *sx_) (string, string, *sx_, bool) {
	if n.head() != "forall" || len(n.kids) != 3 {
		return "", "", nil, false
	}
	bs := n.kids[1].kids
	if len(bs) != 1 || len(bs[0].kids) != 2 {
		return "", "", nil, false
	}
	sort := bs[0].kids[1].atom
	if sort != "Int" && sort != "Str" {
		return "", "", nil, false
	}
	return bs[0].kids[0].atom, sort, stripBang(n.kids[2]), true
}

// skolemize replaces positive single-variable Int foralls of a goal by fresh constants.
func skolemize(n *sx_, positive bool, fresh func(sort string) string, decls *[]string) *sx_ {
	if !n.isList() {
		return n
	}
	switch n.head() {
	case "forall":
		if v, sort, body, ok := singleBinder(n); ok && positive {
			sk := fresh(sort)
			*decls = append(*decls, sk)
			return skolemize(substAtom(body, v, &sx_{atom: sk}), positive, fresh, decls)
		}
		return n
	case "exists":
		// a negative existential is a universal: skolemise it as well
		if len(n.kids) == 3 && !positive {
			bs := n.kids[1].kids
			if len(bs) == 1 && len(bs[0].kids) == 2 && (bs[0].kids[1].atom == "Int" || bs[0].kids[1].atom == "Str") {
				sk := fresh(bs[0].kids[1].atom)
				*decls = append(*decls, sk)
				return skolemize(substAtom(stripBang(n.kids[2]), bs[0].kids[0].atom, &sx_{atom: sk}), positive, fresh, decls)
			}
		}
		return n
	case "and", "or":
		out := &sx_{kids: []*sx_{n.kids[0]}}
		for _, k := range n.kids[1:] {
			out.kids = append(out.kids, skolemize(k, positive, fresh, decls))
		}
		return out
	case "not":
		if len(n.kids) == 2 {
			return &sx_{kids: []*sx_{n.kids[0], skolemize(n.kids[1], !positive, fresh, decls)}}
		}
	case "=>":
		if len(n.kids) == 3 {
			return &sx_{kids: []*sx_{n.kids[0], skolemize(n.kids[1], !positive, fresh, decls), skolemize(n.kids[2], positive, fresh, decls)}}
		}
	}
	return n
}

// instantiate weakens positive single-variable Int foralls into finite conjunctions over cands.
// Returns nil when the formula contains no such quantifier.
func instantiate(n *sx_, positive bool, cands map[string][]*sx_, did *bool) *sx_ {
	return instantiateD(n, positive, cands, did, false)
}

func instantiateD(n *sx_, positive bool, cands map[string][]*sx_, did *bool, deepInstantiate bool) *sx_ {
	if !n.isList() {
		return n
	}
	switch n.head() {
	case "forall":
		if v, sort, body, ok := singleBinder(n); ok && positive {
			*did = true
			out := &sx_{kids: []*sx_{{atom: "and"}, {atom: "true"}}}
			for _, c := range cands[sort] {
				inst := substAtom(body, v, c)
				// directly nested universal quantifiers are instantiated with the same candidates
				// (only for lemma instances: see deepInstantiate)
				if deepInstantiate {
					inst = instantiateD(inst, positive, cands, did, true)
				}
				out.kids = append(out.kids, inst)
			}
			return out
		}
		return n
	case "exists":
		// an existential in negative position behaves like a universal: (exists x. B) => R is
		// weakened to (B[c1] or ... or B[cn]) => R
		if len(n.kids) == 3 && !positive {
			bs := n.kids[1].kids
			if len(bs) == 1 && len(bs[0].kids) == 2 && len(cands[bs[0].kids[1].atom]) > 0 {
				*did = true
				out := &sx_{kids: []*sx_{{atom: "or"}, {atom: "false"}}}
				for _, c := range cands[bs[0].kids[1].atom] {
					out.kids = append(out.kids, substAtom(stripBang(n.kids[2]), bs[0].kids[0].atom, c))
				}
				return out
			}
		}
		return n
	case "and", "or":
		out := &sx_{kids: []*sx_{n.kids[0]}}
		for _, k := range n.kids[1:] {
			out.kids = append(out.kids, instantiateD(k, positive, cands, did, deepInstantiate))
		}
		return out
	case "not":
		if len(n.kids) == 2 {
			return &sx_{kids: []*sx_{n.kids[0], instantiateD(n.kids[1], !positive, cands, did, deepInstantiate)}}
		}
	case "=>":
		if len(n.kids) == 3 {
			return &sx_{kids: []*sx_{n.kids[0], instantiateD(n.kids[1], !positive, cands, did, deepInstantiate), instantiateD(n.kids[2], positive, cands, did, deepInstantiate)}}
		}
	}
	return n
}

func mentionsAny(n *sx_, names map[string]bool) bool {
	if !n.isList() {
		return names[n.atom]
	}
	for _, k := range n.kids {
		if mentionsAny(k, names) {
			return true
		}
	}
	return false
}

func hasBinder(n *sx_) bool {
	if !n.isList() {
		return false
	}
	if h := n.head(); h == "forall" || h == "exists" || h == "let" {
		return true
	}
	for _, k := range n.kids {
		if hasBinder(k) {
			return true
		}
	}
	return false
}

// arrayIndexSort returns the index sort of the array term a, if it can be determined from
// the declared sorts of heap symbols.
func arrayIndexSort(a *sx_, sorts map[string]string) string {
	if !a.isList() {
		if st, ok := sorts[a.atom]; ok {
			if t := parseSexpr(st); t != nil && t.head() == "Array" && len(t.kids) == 3 {
				return t.kids[1].String()
			}
		}
		return ""
	}
	if a.head() == "select" && len(a.kids) == 3 && !a.kids[1].isList() {
		if st, ok := sorts[a.kids[1].atom]; ok {
			if t := parseSexpr(st); t != nil && t.head() == "Array" && len(t.kids) == 3 {
				if e := t.kids[2]; e.head() == "Array" && len(e.kids) == 3 {
					return e.kids[1].String()
				}
			}
		}
		return ""
	}
	if a.head() == "store" && len(a.kids) == 4 {
		return arrayIndexSort(a.kids[1], sorts)
	}
	return ""
}

// indexTerms collects the index arguments of select terms that mention one of the given
// constants, grouped by sort (Int when unknown and the term looks arithmetic).
func indexTerms(n *sx_, names map[string]bool, sorts map[string]string, out map[string]map[string]*sx_) {
	if !n.isList() {
		return
	}
	if h := n.head(); h == "forall" || h == "exists" {
		return
	}
	if n.head() == "select" && len(n.kids) == 3 {
		idx := n.kids[2]
		if mentionsAny(idx, names) && !hasBinder(idx) {
			s := idx.String()
			if len(s) < 400 {
				sort := arrayIndexSort(n.kids[1], sorts)
				if sort == "" {
					// unknown array: accept the term as an Int index only if every constant of
					// interest it mentions is an Int
					sort = "Int"
					for nm := range names {
						if sorts[nm] != "Int" && mentionsAny(idx, map[string]bool{nm: true}) {
							sort = ""
						}
					}
				}
				if sort == "Int" || sort == "Str" {
					if out[sort] == nil {
						out[sort] = map[string]*sx_{}
					}
					out[sort][s] = idx
					// slices are addressed as (+ off k): the relative index k is a candidate as well
					if sort == "Int" && idx.head() == "+" && len(idx.kids) == 3 {
						for _, part := range idx.kids[1:] {
							if mentionsAny(part, names) && !hasBinder(part) {
								if _, lit := parseSMTIntStrict(part.String()); !lit {
									out[sort][part.String()] = part
								}
							}
						}
					}
				}
			}
		}
	}
	for _, k := range n.kids {
		indexTerms(k, names, sorts, out)
	}
}

// skolemizeExists replaces positive single-binder existentials that are not under another
// binder by fresh constants (valid for asserted, already ground-instantiated hypotheses).
func skolemizeExists(n *sx_, positive bool, fresh func(sort string) string) *sx_ {
	if !n.isList() {
		return n
	}
	switch n.head() {
	case "exists":
		if len(n.kids) == 3 && positive {
			bs := n.kids[1].kids
			if len(bs) == 1 && len(bs[0].kids) == 2 && (bs[0].kids[1].atom == "Int" || bs[0].kids[1].atom == "Str") {
				sk := fresh(bs[0].kids[1].atom)
				return skolemizeExists(substAtom(stripBang(n.kids[2]), bs[0].kids[0].atom, &sx_{atom: sk}), positive, fresh)
			}
		}
		return n
	case "forall":
		return n
	case "and", "or":
		out := &sx_{kids: []*sx_{n.kids[0]}}
		for _, k := range n.kids[1:] {
			out.kids = append(out.kids, skolemizeExists(k, positive, fresh))
		}
		return out
	case "not":
		if len(n.kids) == 2 {
			return &sx_{kids: []*sx_{n.kids[0], skolemizeExists(n.kids[1], !positive, fresh)}}
		}
	case "=>":
		if len(n.kids) == 3 {
			return &sx_{kids: []*sx_{n.kids[0], skolemizeExists(n.kids[1], !positive, fresh), skolemizeExists(n.kids[2], positive, fresh)}}
		}
	}
	return n
}

// expandExists adds ground instances to the positive existentials of a goal:
// (exists x. B) becomes (or (exists x. B) B[c1] B[c2] ...), which is equivalent.
func expandExists(n *sx_, positive bool, cands map[string][]*sx_) *sx_ {
	if !n.isList() {
		return n
	}
	switch n.head() {
	case "exists":
		if len(n.kids) == 3 && positive {
			bs := n.kids[1].kids
			if len(bs) == 1 && len(bs[0].kids) == 2 {
				sort := bs[0].kids[1].atom
				out := &sx_{kids: []*sx_{{atom: "or"}, n}}
				for _, c := range cands[sort] {
					out.kids = append(out.kids, substAtom(stripBang(n.kids[2]), bs[0].kids[0].atom, c))
				}
				return out
			}
		}
		return n
	case "forall":
		return n
	case "and", "or":
		out := &sx_{kids: []*sx_{n.kids[0]}}
		for _, k := range n.kids[1:] {
			out.kids = append(out.kids, expandExists(k, positive, cands))
		}
		return out
	case "not":
		if len(n.kids) == 2 {
			return &sx_{kids: []*sx_{n.kids[0], expandExists(n.kids[1], !positive, cands)}}
		}
	case "=>":
		if len(n.kids) == 3 {
			return &sx_{kids: []*sx_{n.kids[0], expandExists(n.kids[1], !positive, cands), expandExists(n.kids[2], positive, cands)}}
		}
	}
	return n
}

// preInstantiate returns (declarations, extra assertion lines, rewritten negated goal).
func preInstantiate(lines []string, pc, goal string, nameHint int, baseSorts map[string]string, groundGoalHyps ...string) (decls []string, extra []string, negGoal string) {
	g := parseSexpr(goal)
	if g == nil {
		return nil, nil, sx("assert", not(goal))
	}
	n := 0
	skSort := map[string]string{}
	var sks []string
	fresh := func(sort string) string {
		n++
		name := fmt.Sprintf("sk!%d_%d", nameHint, n)
		skSort[name] = sort
		return name
	}
	g2 := skolemize(g, true, fresh, &sks)
	negGoal = "(assert (not " + g2.String() + "))"
	groundGoal := len(sks) == 0
	// witness mode: the lemma instances introduced skolem witnesses (membw ...): every quantified
	// hypothesis is instantiated at these witnesses and at the relative slice indices in scope
	witnesses := map[string]*sx_{}
	for _, l := range groundGoalHyps {
		if strings.Contains(l, "(membw ") {
			if t := parseSexpr(l); t != nil {
				collectApps(t, "membw", map[string]bool{}, witnesses)
			}
		}
	}
	if len(witnesses) > 4 {
		// keep the ones mentioned together with goal symbols
		ga := map[string]bool{}
		collectAtoms(g, ga)
		kept := map[string]*sx_{}
		var ks []string
		for k := range witnesses {
			ks = append(ks, k)
		}
		sortKeys(ks)
		for _, k := range ks {
			score := 0
			wa := map[string]bool{}
			collectAtoms(witnesses[k], wa)
			for a := range wa {
				if ga[a] {
					score++
				}
			}
			if score >= 3 && len(kept) < 4 {
				kept[k] = witnesses[k]
			}
		}
		if len(kept) > 0 {
			witnesses = kept
		}
	}
	// existentials of the hypotheses (and universals in negative position) are skolemised here, so
	// that their witnesses, successors and predecessors become instantiation points
	var exNames []string
	var exLines []string
	if lines != nil && len(lines) < 4000 {
		en := 0
		exFresh := func(sort string) string {
			en++
			name := fmt.Sprintf("hw!%d_%d", nameHint, en)
			exNames = append(exNames, name+" "+sort)
			return name
		}
		for li := len(lines) - 1; li >= 0; li-- { // latest first: closest to the obligation
			l := lines[li]
			if len(exNames) >= 8 {
				break
			}
			topNegForall := strings.HasPrefix(l, "(assert (not (forall ((")
			if !strings.HasPrefix(l, "(assert") || !(strings.Contains(l, "(exists ((") || topNegForall) || len(l) > 20000 {
				continue
			}
			t := parseSexpr(l)
			if t == nil || len(t.kids) != 2 {
				continue
			}
			before := len(exNames)
			body := t.kids[1]
			if topNegForall {
				// (not (forall a (forall b B))) is an existential: fix a and b
				inner := body.kids[1]
				for {
					v, sort, b2, ok := singleBinder(inner)
					if !ok {
						break
					}
					inner = substAtom(b2, v, &sx_{atom: exFresh(sort)})
				}
				body = &sx_{kids: []*sx_{{atom: "not"}, inner}}
			}
			h2 := skolemizeExists(body, true, exFresh)
			if len(exNames) > before {
				exLines = append(exLines, "(assert "+h2.String()+")")
			}
		}
	}
	witnessMode := (len(witnesses) > 0 || len(exNames) > 0) && lines != nil
	if groundGoal && !witnessMode && (lines == nil || len(groundGoalHyps) == 0 || !strings.Contains(goal, "(select ")) {
		return nil, nil, negGoal
	}
	if groundGoal && !witnessMode {
		// for quantifier-free goals only the lemma instances are instantiated further
		lines = append(append([]string{}, declLines(lines)...), groundGoalHyps...)
	}
	for _, s := range sks {
		decls = append(decls, fmt.Sprintf("(declare-const %s %s)", s, skSort[s]))
	}
	if lines == nil {
		return decls, nil, negGoal
	}
	sorts := map[string]string{}
	for k, v := range baseSorts {
		sorts[k] = v
	}
	for k, v := range skSort {
		sorts[k] = v
	}
	for _, l := range lines {
		if strings.HasPrefix(l, "(declare-const ") {
			rest := l[len("(declare-const ") : len(l)-1]
			if i := strings.Index(rest, " "); i > 0 {
				sorts[rest[:i]] = rest[i+1:]
			}
		}
	}
	names := map[string]bool{}
	for _, s := range sks {
		names[s] = true
	}
	cands := map[string]map[string]*sx_{}
	for _, s := range sks {
		if cands[skSort[s]] == nil {
			cands[skSort[s]] = map[string]*sx_{}
		}
		cands[skSort[s]][s] = &sx_{atom: s}
	}
	indexTerms(g2, names, sorts, cands)
	if groundGoal {
		// a quantifier-free goal: its own (non-literal) index terms are the instantiation points
		all := map[string]bool{}
		collectAtoms(g2, all)
		tmp := map[string]map[string]*sx_{}
		indexTerms(g2, all, sorts, tmp)
		n := 0
		var ks []string
		for k := range tmp["Int"] {
			ks = append(ks, k)
		}
		sortKeys(ks)
		for _, k := range ks {
			if _, lit := parseSMTIntStrict(k); lit {
				continue
			}
			if cands["Int"] == nil {
				cands["Int"] = map[string]*sx_{}
			}
			cands["Int"][k] = tmp["Int"][k]
			n++
			if n >= 6 {
				break
			}
		}
		if n == 0 && !witnessMode {
			return nil, nil, negGoal
		}
	}
	for _, e := range exNames {
		parts := strings.SplitN(e, " ", 2)
		decls = append(decls, fmt.Sprintf("(declare-const %s %s)", parts[0], parts[1]))
		names[parts[0]] = true
		sorts[parts[0]] = parts[1]
		if cands[parts[1]] == nil {
			cands[parts[1]] = map[string]*sx_{}
		}
		cands[parts[1]][parts[0]] = &sx_{atom: parts[0]}
		if parts[1] == "Int" {
			for _, tt := range []string{"(+ " + parts[0] + " 1)", "(- " + parts[0] + " 1)"} {
				t := parseSexpr(tt)
				cands["Int"][t.String()] = t
			}
		}
	}
	extra = append(extra, exLines...)
	if witnessMode {
		if cands["Int"] == nil {
			cands["Int"] = map[string]*sx_{}
		}
		nw := 0
		var wk []string
		for k := range witnesses {
			wk = append(wk, k)
		}
		sortKeys(wk)
		for _, k := range wk {
			if nw < 4 {
				cands["Int"][k] = witnesses[k]
				nw++
			}
		}
		// relative slice indices (atoms) of the ground select terms in scope, latest first
		nrel := 0
		for li := len(lines) - 1; li >= 0 && nrel < 5; li-- {
			l := lines[li]
			if !strings.HasPrefix(l, "(assert") || !strings.Contains(l, "(select ") {
				continue
			}
			t := parseSexpr(l)
			if t == nil {
				continue
			}
			allAtoms := map[string]bool{}
			collectAtoms(t, allAtoms)
			tmp := map[string]map[string]*sx_{}
			indexTerms(t, allAtoms, sorts, tmp)
			var ks []string
			for k := range tmp["Int"] {
				ks = append(ks, k)
			}
			sortKeys(ks)
			for _, k := range ks {
				tt := tmp["Int"][k]
				if tt.isList() || sorts[tt.atom] != "Int" {
					continue
				}
				if _, lit := parseSMTIntStrict(k); lit {
					continue
				}
				if _, have := cands["Int"][k]; !have && nrel < 5 {
					cands["Int"][k] = tt
					nrel++
				}
			}
		}
	}
	// neighbours of integer skolems (predecessor): typical for inductive arguments
	for _, s := range sks {
		if skSort[s] == "Int" {
			t := parseSexpr("(- " + s + " 1)")
			cands["Int"][t.String()] = t
			t2 := parseSexpr("(+ " + s + " 1)")
			cands["Int"][t2.String()] = t2
		}
	}
	var hyps []*sx_
	deep := map[*sx_]bool{}
	lemmaSet := map[string]bool{}
	for _, l := range groundGoalHyps {
		lemmaSet[l] = true
	}
	for _, l := range lines {
		if !strings.HasPrefix(l, "(assert") || !(strings.Contains(l, "(forall ((") || strings.Contains(l, "(exists ((")) {
			continue
		}
		t := parseSexpr(l)
		if t == nil || len(t.kids) != 2 {
			continue
		}
		hyps = append(hyps, t.kids[1])
		if lemmaSet[l] || witnessMode {
			deep[t.kids[1]] = true
		}
	}
	seenInst := map[string]bool{}
	done := map[string]bool{}
	all := map[string][]*sx_{}
	wn := 0
	var wdecls []string
	var roundWit map[string]map[string]*sx_
	freshW := func(sort string) string {
		wn++
		name := fmt.Sprintf("wit!%d_%d", nameHint, wn)
		wdecls = append(wdecls, fmt.Sprintf("(declare-const %s %s)", name, sort))
		names[name] = true
		sorts[name] = sort
		if roundWit[sort] == nil {
			roundWit[sort] = map[string]*sx_{}
		}
		roundWit[sort][name] = &sx_{atom: name}
		return name
	}
	for round := 0; round < 2; round++ {
		cs := map[string][]*sx_{}
		total := 0
		for sort, m := range cands {
			var keys []string
			for k := range m {
				if !done[sort+"|"+k] {
					keys = append(keys, k)
				}
			}
			sort2 := sort
			sortKeys(keys)
			if lim := 6; len(keys) > lim {
				if witnessMode {
					lim = 10
				}
				if len(keys) > lim {
					keys = keys[:lim]
				}
			}
			for _, k := range keys {
				cs[sort2] = append(cs[sort2], m[k])
				all[sort2] = append(all[sort2], m[k])
				done[sort2+"|"+k] = true
				total++
			}
		}
		if total == 0 {
			break
		}
		next := map[string]map[string]*sx_{}
		roundWit = next
		for _, h := range hyps {
			did := false
			inst := instantiateD(h, true, cs, &did, deep[h])
			if !did {
				continue
			}
			s := "(assert " + inst.String() + ")"
			if seenInst[s] || len(s) > 60000 {
				continue
			}
			seenInst[s] = true
			inst = skolemizeExists(inst, true, freshW)
			s = "(assert " + inst.String() + ")"
			extra = append(extra, s)
			indexTerms(inst, names, sorts, next)
		}
		cands = next
		if len(extra) > 200 {
			break
		}
	}
	// witnesses introduced in the last round are candidates for the goal's existentials too
	for sort, m := range cands {
		var keys []string
		for k := range m {
			if !done[sort+"|"+k] {
				keys = append(keys, k)
			}
		}
		sortKeys(keys)
		if len(keys) > 6 {
			keys = keys[:6]
		}
		for _, k := range keys {
			all[sort] = append(all[sort], m[k])
		}
	}
	for sort := range all {
		if len(all[sort]) > 14 {
			all[sort] = all[sort][:14]
		}
	}
	decls = append(decls, wdecls...)
	g3 := expandExists(g2, true, all)
	negGoal = "(assert (not " + g3.String() + "))"
	return decls, extra, negGoal
}

func sortKeys(keys []string) {
	sort.Slice(keys, func(i, j int) bool {
		// terms built from the goal's skolem constants come first, hypothesis witnesses last
		gi, gj := strings.Contains(keys[i], "sk!"), strings.Contains(keys[j], "sk!")
		if gi != gj {
			return gi
		}
		hi, hj := strings.Contains(keys[i], "hw!"), strings.Contains(keys[j], "hw!")
		if hi != hj {
			return hj
		}
		if len(keys[i]) != len(keys[j]) {
			return len(keys[i]) < len(keys[j])
		}
		return keys[i] < keys[j]
	})
}

func collectAtoms(n *sx_, out map[string]bool) {
	if !n.isList() {
		out[n.atom] = true
		return
	}
	for _, k := range n.kids {
		collectAtoms(k, out)
	}
}

func declLines(lines []string) []string {
	var out []string
	for _, l := range lines {
		if strings.HasPrefix(l, "(declare-const ") {
			out = append(out, l)
		}
	}
	return out
}
