package main

// S-expression utilities: skolemisation of the goal and ground pre-instantiation of quantified
// hypotheses at the goal's index terms. Instances of universally quantified hypotheses are
// logical consequences, so adding them is sound; they make proofs independent of the solvers'
// trigger selection.

import (
	"fmt"
	"sort"
	"strings"
)

type sx_ struct {
	atom string
	kids []*sx_
}

func parseSexpr(s string) *sx_ {
	pos := 0
	var parse func() *sx_
	skip := func() {
		for pos < len(s) && (s[pos] == ' ' || s[pos] == '\n' || s[pos] == '\t') {
			pos++
		}
	}
	parse = func() *sx_ {
		skip()
		if pos >= len(s) {
			return nil
		}
		if s[pos] == '(' {
			pos++
			n := &sx_{}
			for {
				skip()
				if pos >= len(s) {
					return n
				}
				if s[pos] == ')' {
					pos++
					return n
				}
				k := parse()
				if k == nil {
					return n
				}
				n.kids = append(n.kids, k)
			}
		}
		start := pos
		if s[pos] == '|' {
			pos++
			for pos < len(s) && s[pos] != '|' {
				pos++
			}
			pos++
			return &sx_{atom: s[start:pos]}
		}
		for pos < len(s) && s[pos] != ' ' && s[pos] != '(' && s[pos] != ')' && s[pos] != '\n' && s[pos] != '\t' {
			pos++
		}
		return &sx_{atom: s[start:pos]}
	}
	return parse()
}

func (n *sx_) String() string {
	if n == nil {
		return ""
	}
	if n.kids == nil && n.atom != "" {
		return n.atom
	}
	var b strings.Builder
	n.write(&b)
	return b.String()
}

func (n *sx_) write(b *strings.Builder) {
	if n.kids == nil && n.atom != "" {
		b.WriteString(n.atom)
		return
	}
	b.WriteByte('(')
	for i, k := range n.kids {
		if i > 0 {
			b.WriteByte(' ')
		}
		k.write(b)
	}
	b.WriteByte(')')
}

func (n *sx_) isList() bool { return n.atom == "" }
func (n *sx_) head() string {
	if n.isList() && len(n.kids) > 0 && !n.kids[0].isList() {
		return n.kids[0].atom
	}
	return ""
}

func substAtom(n *sx_, name string, repl *sx_) *sx_ {
	if !n.isList() {
		if n.atom == name {
			return repl
		}
		return n
	}
	// do not substitute under a binder of the same name
	if h := n.head(); (h == "forall" || h == "exists") && len(n.kids) == 3 {
		for _, b := range n.kids[1].kids {
			if len(b.kids) == 2 && b.kids[0].atom == name {
				return n
			}
		}
	}
	out := &sx_{kids: make([]*sx_, len(n.kids))}
	changed := false
	for i, k := range n.kids {
		out.kids[i] = substAtom(k, name, repl)
		if out.kids[i] != k {
			changed = true
		}
	}
	if !changed {
		return n
	}
	return out
}

// stripBang removes (! body :pattern ...) annotations.
func stripBang(n *sx_) *sx_ {
	if n.head() == "!" && len(n.kids) >= 2 {
		return n.kids[1]
	}
	return n
}

// singleIntBinder returns the variable of (forall ((v Int)) body).
func singleIntBinder(n *sx_) (string, *sx_, bool) {
	if n.head() != "forall" || len(n.kids) != 3 {
		return "", nil, false
	}
	bs := n.kids[1].kids
	if len(bs) != 1 || len(bs[0].kids) != 2 || bs[0].kids[1].atom != "Int" {
		return "", nil, false
	}
	return bs[0].kids[0].atom, stripBang(n.kids[2]), true
}

// skolemize replaces positive single-variable Int foralls of a goal by fresh constants.
func skolemize(n *sx_, positive bool, fresh func() string, decls *[]string) *sx_ {
	if !n.isList() {
		return n
	}
	switch n.head() {
	case "forall":
		if v, body, ok := singleIntBinder(n); ok && positive {
			sk := fresh()
			*decls = append(*decls, sk)
			return skolemize(substAtom(body, v, &sx_{atom: sk}), positive, fresh, decls)
		}
		return n
	case "exists":
		return n
	case "and", "or":
		out := &sx_{kids: []*sx_{n.kids[0]}}
		for _, k := range n.kids[1:] {
			out.kids = append(out.kids, skolemize(k, positive, fresh, decls))
		}
		return out
	case "not":
		if len(n.kids) == 2 {
			return &sx_{kids: []*sx_{n.kids[0], skolemize(n.kids[1], !positive, fresh, decls)}}
		}
	case "=>":
		if len(n.kids) == 3 {
			return &sx_{kids: []*sx_{n.kids[0], skolemize(n.kids[1], !positive, fresh, decls), skolemize(n.kids[2], positive, fresh, decls)}}
		}
	}
	return n
}

// instantiate weakens positive single-variable Int foralls into finite conjunctions over cands.
// Returns nil when the formula contains no such quantifier.
func instantiate(n *sx_, positive bool, cands []*sx_, did *bool) *sx_ {
	if !n.isList() {
		return n
	}
	switch n.head() {
	case "forall":
		if v, body, ok := singleIntBinder(n); ok && positive {
			*did = true
			out := &sx_{kids: []*sx_{{atom: "and"}, {atom: "true"}}}
			for _, c := range cands {
				inst := substAtom(body, v, c)
				// nested quantifiers inside the instance are left as they are
				out.kids = append(out.kids, inst)
			}
			return out
		}
		return n
	case "exists":
		return n
	case "and", "or":
		out := &sx_{kids: []*sx_{n.kids[0]}}
		for _, k := range n.kids[1:] {
			out.kids = append(out.kids, instantiate(k, positive, cands, did))
		}
		return out
	case "not":
		if len(n.kids) == 2 {
			return &sx_{kids: []*sx_{n.kids[0], instantiate(n.kids[1], !positive, cands, did)}}
		}
	case "=>":
		if len(n.kids) == 3 {
			return &sx_{kids: []*sx_{n.kids[0], instantiate(n.kids[1], !positive, cands, did), instantiate(n.kids[2], positive, cands, did)}}
		}
	}
	return n
}

func mentionsAny(n *sx_, names map[string]bool) bool {
	if !n.isList() {
		return names[n.atom]
	}
	for _, k := range n.kids {
		if mentionsAny(k, names) {
			return true
		}
	}
	return false
}

func hasBinder(n *sx_) bool {
	if !n.isList() {
		return false
	}
	if h := n.head(); h == "forall" || h == "exists" || h == "let" {
		return true
	}
	for _, k := range n.kids {
		if hasBinder(k) {
			return true
		}
	}
	return false
}

// indexTerms collects the index arguments of (select (select H r) IDX) and (select A IDX)
// that mention one of the given constants.
func indexTerms(n *sx_, names map[string]bool, out map[string]*sx_) {
	if !n.isList() {
		return
	}
	if h := n.head(); h == "forall" || h == "exists" {
		return
	}
	if n.head() == "select" && len(n.kids) == 3 {
		idx := n.kids[2]
		if mentionsAny(idx, names) && !hasBinder(idx) {
			s := idx.String()
			if len(s) < 400 {
				out[s] = idx
			}
		}
	}
	for _, k := range n.kids {
		indexTerms(k, names, out)
	}
}

// preInstantiate returns (declarations, extra assertion lines, rewritten negated goal).
func preInstantiate(lines []string, pc, goal string, nameHint int) (decls []string, extra []string, negGoal string) {
	g := parseSexpr(goal)
	if g == nil {
		return nil, nil, sx("assert", not(goal))
	}
	n := 0
	var sks []string
	fresh := func() string {
		n++
		return fmt.Sprintf("sk!%d_%d", nameHint, n)
	}
	g2 := skolemize(g, true, fresh, &sks)
	negGoal = "(assert (not " + g2.String() + "))"
	if len(sks) == 0 {
		return nil, nil, negGoal
	}
	for _, s := range sks {
		decls = append(decls, fmt.Sprintf("(declare-const %s Int)", s))
	}
	names := map[string]bool{}
	for _, s := range sks {
		names[s] = true
	}
	cands := map[string]*sx_{}
	for _, s := range sks {
		cands[s] = &sx_{atom: s}
	}
	indexTerms(g2, names, cands)
	// parse quantified hypothesis lines once
	type hyp struct{ tree *sx_ }
	var hyps []hyp
	for _, l := range lines {
		if !strings.HasPrefix(l, "(assert") || !strings.Contains(l, "(forall ((") {
			continue
		}
		t := parseSexpr(l)
		if t == nil || len(t.kids) != 2 {
			continue
		}
		hyps = append(hyps, hyp{tree: t.kids[1]})
	}
	seenInst := map[string]bool{}
	done := map[string]bool{}
	for round := 0; round < 2 && len(cands) > 0; round++ {
		var keys []string
		for k := range cands {
			if !done[k] {
				keys = append(keys, k)
			}
		}
		sort.Slice(keys, func(i, j int) bool {
			if len(keys[i]) != len(keys[j]) {
				return len(keys[i]) < len(keys[j])
			}
			return keys[i] < keys[j]
		})
		if len(keys) > 10 {
			keys = keys[:10]
		}
		var cs []*sx_
		for _, k := range keys {
			cs = append(cs, cands[k])
			done[k] = true
		}
		if len(cs) == 0 {
			break
		}
		next := map[string]*sx_{}
		for _, h := range hyps {
			did := false
			inst := instantiate(h.tree, true, cs, &did)
			if !did {
				continue
			}
			s := "(assert " + inst.String() + ")"
			if seenInst[s] || len(s) > 200000 {
				continue
			}
			seenInst[s] = true
			extra = append(extra, s)
			indexTerms(inst, names, next)
		}
		cands = next
		if len(extra) > 400 {
			break
		}
	}
	return decls, extra, negGoal
}
