package main

// Loading /repo's current working tree into go/ssa.

import (
	"fmt"
	"go/ast"
	"go/token"
	"go/types"
	"os"
	"path/filepath"
	"regexp"
	"strings"

	"golang.org/x/tools/go/packages"
	"golang.org/x/tools/go/ssa"
	"golang.org/x/tools/go/ssa/ssautil"
)

type preludeSig struct {
	args []string
	res  string
}

type Program struct {
	fset        *token.FileSet
	prog        *ssa.Program
	pkgs        map[string]*ssa.Package // by package name (gonnx, onnx, ops, opset13)
	allPkgs     []*ssa.Package
	modulePath  string
	repo        string
	verifDir    string
	prelude     string
	preludeSigs map[string]preludeSig
	dtypeType   types.Type
	known       *KnownFindings
	tensorPkg   *types.Package
	loadSecs    float64
	lemmas      []*SmtLemma
	opImpls     []opImpl
	noFamilies  bool // lemma selection variant (set on per-query copies only)
	focus       map[string]bool // goal-derived applications (per-query copies only)
	legacyLemmas bool // single-phase first round, loose tuple matching (variant, per-query copies only)
}

func loadProgram(repo, verifDir string) (*Program, error) {
	cfg := &packages.Config{
		Mode:       packages.LoadAllSyntax,
		Dir:        repo,
		Tests:      false,
		BuildFlags: []string{"-tags=verif", "-mod=mod"},
		Env: append(os.Environ(), "GOFLAGS=-mod=mod", "GOPROXY=off", "GOSUMDB=off", "GOTOOLCHAIN=local",
			"GOWORK=off"),
	}
	initial, err := packages.Load(cfg, "./...")
	if err != nil {
		return nil, err
	}
	var errs []string
	packages.Visit(initial, nil, func(p *packages.Package) {
		for _, e := range p.Errors {
			errs = append(errs, e.Error())
		}
	})
	if len(errs) > 0 {
		return nil, fmt.Errorf("package load errors:\n%s", strings.Join(errs, "\n"))
	}
	prog, pkgs := ssautil.AllPackages(initial, ssa.InstantiateGenerics|ssa.GlobalDebug)
	prog.Build()
	p := &Program{fset: initial[0].Fset, prog: prog, pkgs: map[string]*ssa.Package{}, repo: repo, verifDir: verifDir,
		preludeSigs: map[string]preludeSig{}}
	for k, sp := range pkgs {
		if sp == nil {
			continue
		}
		p.pkgs[sp.Pkg.Name()] = sp
		p.allPkgs = append(p.allPkgs, sp)
		if initial[k].Module != nil {
			p.modulePath = initial[k].Module.Path
		}
	}
	for _, sp := range prog.AllPackages() {
		if sp.Pkg.Path() == "gorgonia.org/tensor" {
			p.tensorPkg = sp.Pkg
			if o := sp.Pkg.Scope().Lookup("Dtype"); o != nil {
				p.dtypeType = o.Type()
			}
		}
	}
	if p.modulePath == "" {
		p.modulePath = "github.com/advancedclimatesystems/gonnx"
	}
	// prelude
	b, err := os.ReadFile(filepath.Join(verifDir, "contracts", "prelude.smt2"))
	if err != nil {
		return nil, err
	}
	p.prelude = string(b)
	p.parsePrelude()
	if p.lemmas, err = loadSmtLemmas(verifDir); err != nil {
		return nil, err
	}
	return p, nil
}

var declRe = regexp.MustCompile(`^\((declare-fun|define-fun|define-fun-rec)\s+([^\s()]+)\s+\(`)

func (p *Program) parsePrelude() {
	// parse top-level forms
	for _, form := range sexprSplit(stripComments(p.prelude)) {
		m := declRe.FindStringSubmatch(form)
		if m == nil {
			continue
		}
		parts := sexprSplit(form[1 : len(form)-1])
		if len(parts) < 4 {
			continue
		}
		name := parts[1]
		argList := parts[2]
		res := parts[3]
		var args []string
		inner := strings.TrimSpace(argList[1 : len(argList)-1])
		if m[1] == "declare-fun" {
			args = sexprSplit(inner)
		} else {
			for _, a := range sexprSplit(inner) {
				kv := sexprSplit(a[1 : len(a)-1])
				if len(kv) == 2 {
					args = append(args, kv[1])
				}
			}
		}
		p.preludeSigs[name] = preludeSig{args: args, res: res}
	}
}

func stripComments(s string) string {
	var out []string
	for _, l := range strings.Split(s, "\n") {
		if i := strings.Index(l, ";"); i >= 0 {
			l = l[:i]
		}
		out = append(out, l)
	}
	return strings.Join(out, "\n")
}

// findFunc resolves a contract target like "onnx.ReadFloat32ArrayFromBytes" or
// "opset13.(*Conv).getOutputShape" to SSA functions (several for generic origins).
func (p *Program) findFunc(target string) []*ssa.Function {
	dot := strings.Index(target, ".")
	if dot < 0 {
		return nil
	}
	pkgName, rest := target[:dot], target[dot+1:]
	sp := p.pkgs[pkgName]
	if sp == nil {
		return nil
	}
	if strings.HasPrefix(rest, "(") {
		close := strings.Index(rest, ")")
		recv := rest[1:close]
		method := rest[close+2:]
		ptr := strings.HasPrefix(recv, "*")
		recv = strings.TrimPrefix(recv, "*")
		o := sp.Pkg.Scope().Lookup(recv)
		if o == nil {
			return nil
		}
		var t types.Type = o.Type()
		if ptr {
			t = types.NewPointer(t)
		}
		ms := p.prog.MethodSets.MethodSet(t)
		for i := 0; i < ms.Len(); i++ {
			if ms.At(i).Obj().Name() == method {
				if f := p.prog.MethodValue(ms.At(i)); f != nil {
					return []*ssa.Function{f}
				}
			}
		}
		return nil
	}
	if strings.Contains(rest, "$") {
		// anonymous function: parent$name
		parts := strings.SplitN(rest, "$", 2)
		for _, parent := range p.findFunc(pkgName + "." + parts[0]) {
			for _, an := range parent.AnonFuncs {
				if an.Name() == rest || an.Name() == parent.Name()+"$"+parts[1] || an.Name() == parts[1] {
					return []*ssa.Function{an}
				}
			}
		}
		return nil
	}
	f := sp.Func(rest)
	if f == nil {
		return nil
	}
	if f.TypeParams().Len() > 0 {
		// generic: return all instances
		var out []*ssa.Function
		for fn := range ssautil.AllFunctions(p.prog) {
			if fn.Origin() == f {
				out = append(out, fn)
			}
		}
		sortFuncs(out)
		return out
	}
	return []*ssa.Function{f}
}

func sortFuncs(fs []*ssa.Function) {
	for i := 1; i < len(fs); i++ {
		for j := i; j > 0 && fs[j].String() < fs[j-1].String(); j-- {
			fs[j], fs[j-1] = fs[j-1], fs[j]
		}
	}
}

func debugIdent(dr *ssa.DebugRef) string {
	if id, ok := dr.Expr.(*ast.Ident); ok {
		return id.Name
	}
	return ""
}

// findGlobal looks up a package-level variable by (optionally qualified) name.
func (p *Program) findGlobal(name string, fr *Frame) *ssa.Global {
	if i := strings.Index(name, "__"); i > 0 {
		if sp := p.pkgs[name[:i]]; sp != nil {
			if g, ok := sp.Members[name[i+2:]].(*ssa.Global); ok {
				return g
			}
		}
		for _, sp := range p.prog.AllPackages() {
			if sp.Pkg.Name() == name[:i] {
				if g, ok := sp.Members[name[i+2:]].(*ssa.Global); ok {
					return g
				}
			}
		}
		return nil
	}
	if fr != nil && fr.fn != nil {
		fn := fr.fn
		for fn.Parent() != nil {
			fn = fn.Parent()
		}
		if o := fn.Origin(); o != nil {
			fn = o
		}
		if fn.Pkg != nil {
			if g, ok := fn.Pkg.Members[name].(*ssa.Global); ok {
				return g
			}
		}
	}
	for _, pn := range []string{"gonnx", "ops", "opset13", "onnx"} {
		if sp := p.pkgs[pn]; sp != nil {
			if g, ok := sp.Members[name].(*ssa.Global); ok {
				return g
			}
		}
	}
	return nil
}

// typeByName resolves a small set of type spellings used in contracts: []float32,
// []int64, *tensor.Dense, opset13.Conv, *opset13.Conv ...
func (p *Program) typeByName(s string) types.Type {
	s = strings.TrimSpace(s)
	if strings.HasPrefix(s, "[]") {
		e := p.typeByName(s[2:])
		if e == nil {
			return nil
		}
		return types.NewSlice(e)
	}
	if strings.HasPrefix(s, "*") {
		e := p.typeByName(s[1:])
		if e == nil {
			return nil
		}
		return types.NewPointer(e)
	}
	for _, b := range types.Typ {
		if b.Name() == s {
			return b
		}
	}
	if s == "byte" {
		return types.Typ[types.Uint8]
	}
	if i := strings.Index(s, "."); i > 0 {
		pkg, name := s[:i], s[i+1:]
		for _, sp := range p.prog.AllPackages() {
			if sp.Pkg.Name() == pkg {
				if o := sp.Pkg.Scope().Lookup(name); o != nil {
					if _, ok := o.(*types.TypeName); ok {
						return o.Type()
					}
				}
			}
		}
	}
	return nil
}
