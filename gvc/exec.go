package main

// Core of the VC generator: symbolic execution of go/ssa functions in passive form.

import (
	"regexp"
	"fmt"
	"go/token"
	"go/types"
	"sort"
	"strings"

	"golang.org/x/tools/go/ssa"
)

// State is the heap at a program point: component name -> current SMT symbol.
type State struct {
	H map[string]string
}

func (s *State) clone() *State {
	n := &State{H: make(map[string]string, len(s.H))}
	for k, v := range s.H {
		n.H[k] = v
	}
	return n
}

type Obligation struct {
	Name    string
	Func    string
	Kind    string // post pre inv-entry inv-pres nopanic frame assert unsupported lemma
	Label   string
	Tags    []string
	Goal    string
	PC      string
	Prefix  int // number of context lines that precede this obligation
	Pos     token.Position
	Desc    string
	Src     string // clause source
	ModelTerms []string // terms worth asking the model for
	exec    *Exec
	// results
	Result  SolverResult
	Carved  bool
}

// Addr is a symbolic address: the components of the pointee live in heap components
// Prefix$<Lo+k>, indexed by Ref (and Idx for element storage).
type Addr struct {
	Prefix string
	Lo     int
	Ref    string
	Idx    string // "" when not element storage
	T      types.Type
	Global bool
}

type Loop struct {
	Header  *ssa.BasicBlock
	Body    map[*ssa.BasicBlock]bool
	Latches []*ssa.BasicBlock
	Ordinal int
}

type Frame struct {
	fn       *ssa.Function
	x        *Exec
	vals     map[ssa.Value]Val
	addrs    map[ssa.Value]Addr
	outPC    map[*ssa.BasicBlock]string
	outSt    map[*ssa.BasicBlock]*State
	edgeCond map[*ssa.BasicBlock][2]string // cond for succ 0 and succ 1
	contract *Contract
	entry    *State
	params   []Val
	depth    int
	top      bool
	loops    map[*ssa.BasicBlock]*Loop
	loopList []*Loop
	rets     []retPoint
	label    string // function label used in obligation names
	allocEntry string
	modLocs  []LocSet // evaluated modifies clause (top only)
	closures map[string]closureInfo
	curBlock *ssa.BasicBlock
	curPC    string
	curSt    *State
	loopHeadSt map[*ssa.BasicBlock]*State
	loopHeadVals map[*ssa.BasicBlock]map[string]Val
	bindings []Val // free variables of a closure
	callCount map[string]int
}

type closureInfo struct {
	fn       *ssa.Function
	bindings []Val
}

type retPoint struct {
	pc   string
	st   *State
	vals []Val
}

type LocSet struct {
	Comps  []string // heap components
	Ref    string
	Lo, Hi string // optional index range [Lo,Hi) for element storage
	Src    string
}

type returnPoint struct {
	line   int
	prefix int
	pc     string
}

type Exec struct {
	tsubst map[string]types.Type // type parameter names of the generic function whose contract is being evaluated
	prog      *Program
	anchors   map[string][]string // heap component -> references (bases of slice parameters) at which every new heap version is related to its predecessor by a ground instance
	cs        *ContractSet
	lines     []string
	nfresh    int
	obls      []*Obligation
	compSorts map[string]string
	compOrder []string
	strLits   map[string]string
	strOrder  []string
	typeTags  map[string]int
	tagTypes  []types.Type
	funcIDs   map[string]int
	funcByID  []*ssa.Function
	property  string
	probing   int
	probeMods map[string]*probeInfo
	allocTerms map[string]bool
	unsupported []string
	topLabel  string
	inlined   map[string]bool
	trustedUsed map[string]bool
	assumed   map[string]bool
	declared  map[string]bool
	globalsInit map[string]bool
	uf        map[string]string // uninterpreted function declarations
	ufOrder   []string
	curPosFn  func() token.Position
	carveAssume bool
	probeAllocs map[string]bool
	closureTab map[string]closureInfo
	implTab   map[string]types.Type
	topFrame  *Frame
	noFrame   bool
	usedContracts map[string]*ssa.Function
	usedIface map[string]bool
	specErrors []string
	internalErr string
	qcount    int
	sentinels map[string]int
	requiresSrc []string
	scopeSrc  []string
	vacuityPrefix int
	topContract   *Contract
	implicitFrame bool // frame sweep: helpers without contract get the implicit frame-only contract
	returnPoints  []returnPoint // returns of the function under verification (reachability guard)
	quiet     int
	devirtCache map[string]devirtCacheEntry
	stamps    map[string]int
	reshapeSeen bool
	lastDynSig *types.Signature
	probePhis map[string]*ssa.Phi
	emptyRange string
}

type probeInfo struct {
	targets map[string]bool // ref terms stored to
	whole   bool            // unknown target: havoc everything
}

func newExec(prog *Program, cs *ContractSet, property string) *Exec {
	return &Exec{
		prog: prog, cs: cs, property: property,
		compSorts: map[string]string{}, strLits: map[string]string{}, typeTags: map[string]int{},
		funcIDs: map[string]int{}, allocTerms: map[string]bool{}, inlined: map[string]bool{},
		trustedUsed: map[string]bool{}, assumed: map[string]bool{}, declared: map[string]bool{},
		globalsInit: map[string]bool{}, uf: map[string]string{},
	}
}

// ---------------------------------------------------------------------------------------
// emission helpers

func (x *Exec) emit(line string) {
	x.lines = append(x.lines, line)
	if len(x.anchors) > 0 && strings.HasPrefix(line, "(assert (forall ((r Int)) (! (=> (not (= r ") {
		// a per-object frame axiom "every object but X keeps its value": add its ground instances
		// at the anchored references of that component
		if m := frameAxiomRe.FindStringSubmatch(line); m != nil {
			comp := versionSuffixRe.ReplaceAllString(m[2], "")
			for name, refs := range x.anchors {
				if sanitize(name) != comp {
					continue
				}
				for _, b := range refs {
					if b != m[1] {
						x.lines = append(x.lines, sx("assert", implies(not(eq(b, m[1])), eq(sel(m[2], b), sel(m[3], b)))))
					}
				}
			}
		}
	}
}

var (
	frameAxiomRe    = regexp.MustCompile(`^\(assert \(forall \(\(r Int\)\) \(! \(=> \(not \(= r ([^\s()]+)\)\) \(= \(select ([^\s()]+) r\) \(select ([^\s()]+) r\)\)\) :pattern`)
	versionSuffixRe = regexp.MustCompile(`(_[a-z]*![0-9]+|@0)$`)
)

func (x *Exec) fresh(hint, sort string) string {
	x.nfresh++
	hint = sanitize(hint)
	name := fmt.Sprintf("%s!%d", hint, x.nfresh)
	x.emit(fmt.Sprintf("(declare-const %s %s)", name, sort))
	return name
}

func sanitize(s string) string {
	var b strings.Builder
	for _, c := range s {
		switch {
		case c >= 'a' && c <= 'z', c >= 'A' && c <= 'Z', c >= '0' && c <= '9', c == '_', c == '.', c == '$':
			b.WriteRune(c)
		default:
			b.WriteByte('_')
		}
	}
	if b.Len() == 0 {
		return "v"
	}
	return b.String()
}

// define introduces a named constant equal to term (keeps terms small).
func (x *Exec) define(hint, sort, term string) string {
	if isAtom(term) {
		return term
	}
	n := x.fresh(hint, sort)
	x.emit(sx("assert", eq(n, term)))
	return n
}

func isAtom(t string) bool {
	return !strings.ContainsAny(t, " (") || (strings.HasPrefix(t, "(- ") && !strings.ContainsAny(t[3:len(t)-1], " ("))
}

func (x *Exec) assume(pc, fact string) {
	if fact == "true" {
		return
	}
	x.emit(sx("assert", implies(pc, fact)))
}

func (x *Exec) freshVal(hint string, t types.Type) Val {
	var cs []string
	for _, c := range layout(t) {
		cs = append(cs, x.fresh(hint+c.Suffix, c.Sort))
	}
	return Val{T: t, C: cs}
}

func (x *Exec) defineVal(hint string, v Val) Val {
	ly := layout(v.T)
	out := Val{T: v.T, C: make([]string, len(v.C))}
	for i, c := range v.C {
		out.C[i] = x.define(hint+ly[i].Suffix, ly[i].Sort, c)
	}
	return out
}

func (x *Exec) uninterp(name string, argSorts []string, res string) {
	if _, ok := x.uf[name]; ok {
		return
	}
	x.uf[name] = fmt.Sprintf("(declare-fun %s (%s) %s)", name, strings.Join(argSorts, " "), res)
	x.ufOrder = append(x.ufOrder, name)
}

func (x *Exec) strLit(s string) string {
	if s == "" {
		return "str_empty"
	}
	if n, ok := x.strLits[s]; ok {
		return n
	}
	n := fmt.Sprintf("str_lit_%d_%s", len(x.strLits), sanitize(truncate(s, 24)))
	x.strLits[s] = n
	x.strOrder = append(x.strOrder, s)
	return n
}

func truncate(s string, n int) string {
	if len(s) > n {
		return s[:n]
	}
	return s
}

func (x *Exec) typeTag(t types.Type) string {
	k := typeKey(t)
	if id, ok := x.typeTags[k]; ok {
		return fmt.Sprint(id)
	}
	id := len(x.typeTags) + 1
	x.typeTags[k] = id
	x.tagTypes = append(x.tagTypes, t)
	return fmt.Sprint(id)
}

func (x *Exec) funcID(fn *ssa.Function) string {
	k := fn.String()
	if id, ok := x.funcIDs[k]; ok {
		return fmt.Sprint(id)
	}
	id := len(x.funcIDs) + 1
	x.funcIDs[k] = id
	x.funcByID = append(x.funcByID, fn)
	return fmt.Sprint(id)
}

// ---------------------------------------------------------------------------------------
// heap components

func (x *Exec) comp(st *State, name, sort string) string {
	if s, ok := st.H[name]; ok {
		return s
	}
	if _, ok := x.compSorts[name]; !ok {
		x.compSorts[name] = sort
		x.compOrder = append(x.compOrder, name)
	}
	// the initial version of a component is shared by all states
	return sanitize(name) + "@0"
}

func (x *Exec) setComp(st *State, name, sort, term string) {
	if _, ok := x.compSorts[name]; !ok {
		x.compSorts[name] = sort
		x.compOrder = append(x.compOrder, name)
	}
	sym := x.fresh(sanitize(name)+"@", sort)
	x.emit(sx("assert", eq(sym, term)))
	st.H[name] = sym
	if len(x.anchors[name]) > 0 && strings.HasPrefix(term, "(store ") {
		// ground instances of select-over-store at the anchored references (valid by array theory)
		if t := parseSexpr(term); t != nil && len(t.kids) == 4 {
			old, ref := t.kids[1].String(), t.kids[2].String()
			for _, b := range x.anchors[name] {
				if b != ref {
					x.emit(sx("assert", implies(not(eq(b, ref)), eq(sel(sym, b), sel(old, b)))))
				}
			}
		}
	}
}

// anchor registers a reference whose per-object value in a heap component is tracked across
// heap versions by ground instances (of store/merge definitions and loop frame axioms).
func (x *Exec) anchor(name, ref string) {
	if x.anchors == nil {
		x.anchors = map[string][]string{}
	}
	for _, r := range x.anchors[name] {
		if r == ref {
			return
		}
	}
	x.anchors[name] = append(x.anchors[name], ref)
}

func (x *Exec) havocComp(st *State, name, sort string) (oldSym, newSym string) {
	oldSym = x.comp(st, name, sort)
	newSym = x.fresh(sanitize(name)+"@h", sort)
	st.H[name] = newSym
	return
}

func (x *Exec) alloc(st *State) string { return x.comp(st, "$alloc", SInt) }

// newRef allocates a fresh object reference.
func (x *Exec) newRef(st *State, hint string) string {
	cur := x.alloc(st)
	r := x.define(hint+"_ref", SInt, cur)
	x.setComp(st, "$alloc", SInt, sx("+", cur, "1"))
	x.recordStore("$alloc", "")
	x.allocTerms[r] = true
	return r
}

func elemSort(s string) string  { return arraySort(SInt, arraySort(SInt, s)) }
func fieldSort(s string) string { return arraySort(SInt, s) }

func (x *Exec) recordStore(comp, ref string) {
	if x.probing > 0 && x.probeMods != nil {
		pi := x.probeMods[comp]
		if pi == nil {
			pi = &probeInfo{targets: map[string]bool{}}
			x.probeMods[comp] = pi
		}
		if ref == "" {
			pi.whole = true
		} else {
			pi.targets[ref] = true
		}
	}
}

// load reads the value at an address.
func (x *Exec) load(st *State, a Addr) Val {
	ly := layout(a.T)
	v := Val{T: a.T, C: make([]string, len(ly))}
	for k, c := range ly {
		name := fmt.Sprintf("%s$%d", a.Prefix, a.Lo+k)
		if a.Idx != "" {
			h := x.comp(st, name, elemSort(c.Sort))
			v.C[k] = sel2(h, a.Ref, a.Idx)
		} else {
			h := x.comp(st, name, fieldSort(c.Sort))
			v.C[k] = sel(h, a.Ref)
		}
	}
	return v
}

func (x *Exec) store(st *State, a Addr, v Val) {
	ly := layout(a.T)
	if len(v.C) != len(ly) {
		panic(fmt.Sprintf("store: layout mismatch %v vs %d comps (%v)", a.T, len(v.C), v.T))
	}
	for k, c := range ly {
		name := fmt.Sprintf("%s$%d", a.Prefix, a.Lo+k)
		if a.Idx != "" {
			h := x.comp(st, name, elemSort(c.Sort))
			x.setComp(st, name, elemSort(c.Sort), sto2(h, a.Ref, a.Idx, v.C[k]))
		} else {
			h := x.comp(st, name, fieldSort(c.Sort))
			x.setComp(st, name, fieldSort(c.Sort), sto(h, a.Ref, v.C[k]))
		}
		x.recordStore(name, a.Ref)
	}
}

// typeInv returns the type invariant of a value (ranges of sized integers, slice header sanity, ...).
func (x *Exec) typeInv(v Val, st *State) string {
	if v.T == nil {
		return "true"
	}
	if isDtype(v.T) {
		return sx(">=", v.C[0], "0")
	}
	switch u := v.T.Underlying().(type) {
	case *types.Basic:
		if u.Info()&types.IsInteger != 0 {
			lo, hi, hasLo, hasHi := intRange(v.T)
			var cs []string
			if hasLo {
				cs = append(cs, sx("<=", lo, v.C[0]))
			}
			if hasHi {
				cs = append(cs, sx("<=", v.C[0], hi))
			}
			return and(cs...)
		}
		if u.Info()&types.IsString != 0 {
			return "true"
		}
	case *types.Slice:
		return and(sx("<=", "0", v.off()), sx("<=", "0", v.slen()), sx("<=", v.slen(), v.scap()), sx("<=", "0", v.base()),
			implies(eq(v.base(), "0"), and(eq(v.scap(), "0"), eq(v.off(), "0"))),
			sx("<", v.base(), x.alloc(st)))
	case *types.Pointer, *types.Map, *types.Signature, *types.Chan:
		return and(sx("<=", "0", v.C[0]), sx("<", v.C[0], x.alloc(st)), x.tensorTypeInv(v, st))
	case *types.Interface:
		// assumption: interface values never hold typed-nil pointers
		return and(sx("<=", "0", v.tag()), eq(eq(v.tag(), "0"), eq(v.pay(), "0")), sx("<", v.pay(), x.alloc(st)), x.tensorTypeInv(v, st))
	case *types.Struct:
		var cs []string
		for i := 0; i < u.NumFields(); i++ {
			lo, hi := fieldRange(u, i)
			cs = append(cs, x.typeInv(Val{T: u.Field(i).Type(), C: v.C[lo:hi]}, st))
		}
		return and(cs...)
	case *types.Tuple:
		var cs []string
		for i := 0; i < u.Len(); i++ {
			lo, hi := tupleRange(u, i)
			cs = append(cs, x.typeInv(Val{T: u.At(i).Type(), C: v.C[lo:hi]}, st))
		}
		return and(cs...)
	}
	return "true"
}

// ---------------------------------------------------------------------------------------
// obligations

func (x *Exec) oblige(fr *Frame, kind, label string, tags []string, goal string, pc string, desc, src string) {
	if x.probing > 0 || x.quiet > 0 {
		return
	}
	name := fmt.Sprintf("%s#%s:%s", x.topLabel, kind, label)
	// disambiguate duplicates
	cnt := 0
	for _, o := range x.obls {
		if o.Name == name || strings.HasPrefix(o.Name, name+"~") {
			cnt++
		}
	}
	if cnt > 0 {
		name = fmt.Sprintf("%s~%d", name, cnt+1)
	}
	var pos token.Position
	if x.curPosFn != nil {
		pos = x.curPosFn()
	}
	o := &Obligation{Name: name, Func: x.topLabel, Kind: kind, Label: label, Tags: tags, Goal: goal, PC: pc,
		Prefix: len(x.lines), Desc: desc, Src: src, exec: x, Pos: pos}
	x.obls = append(x.obls, o)
	// once checked, the fact may be assumed downstream
	x.assume(pc, goal)
}

func (x *Exec) unsupportedf(fr *Frame, pc string, format string, a ...any) {
	msg := fmt.Sprintf(format, a...)
	x.unsupported = append(x.unsupported, msg)
	x.oblige(fr, "unsupported", sanitize(truncate(msg, 60)), nil, "false", pc, msg, "")
}

// ---------------------------------------------------------------------------------------
// query assembly

func (x *Exec) preamble() string {
	var b strings.Builder
	b.WriteString("(declare-sort Str 0)\n(declare-const str_empty Str)\n(declare-fun str_len (Str) Int)\n")
	b.WriteString("(assert (forall ((s Str)) (! (>= (str_len s) 0) :pattern ((str_len s)))))\n")
	b.WriteString("(assert (forall ((s Str)) (! (= (= (str_len s) 0) (= s str_empty)) :pattern ((str_len s)))))\n")
	b.WriteString(x.prog.prelude)
	b.WriteString("\n")
	lits := append([]string{}, x.strOrder...)
	for _, s := range lits {
		b.WriteString(fmt.Sprintf("(declare-const %s Str)\n(assert (= (str_len %s) %d))\n", x.strLits[s], x.strLits[s], len(s)))
	}
	if len(lits) > 0 {
		names := []string{"str_empty"}
		for _, s := range lits {
			names = append(names, x.strLits[s])
		}
		b.WriteString("(assert (distinct " + strings.Join(names, " ") + "))\n")
	}
	for _, n := range x.ufOrder {
		b.WriteString(x.uf[n] + "\n")
	}
	b.WriteString(x.implementsAxioms())
	comps := append([]string{}, x.compOrder...)
	sort.Strings(comps)
	for _, c := range comps {
		b.WriteString(fmt.Sprintf("(declare-const %s@0 %s)\n", sanitize(c), x.compSorts[c]))
	}
	return b.String()
}

func (x *Exec) query(o *Obligation, withModel bool) string {
	return x.assemble(x.lines[:o.Prefix], o, withModel, true)
}

// assemble builds the SMT-LIB text of one obligation over the given context lines.
func (x *Exec) assemble(lines []string, o *Obligation, withModel bool, inst bool, plainRounds ...int) string {
	// a goal A => B is split: A joins the hypotheses (conjunct by conjunct), B is the goal
	if g := parseSexpr(o.Goal); g != nil && g.head() == "=>" && len(g.kids) == 3 {
		cp := *o
		lines = append([]string{}, lines...)
		for g != nil && g.head() == "=>" && len(g.kids) == 3 {
			var conj func(a *sx_)
			conj = func(a *sx_) {
				if a.head() == "and" {
					for _, k := range a.kids[1:] {
						conj(k)
					}
					return
				}
				lines = append(lines, "(assert "+a.String()+")")
			}
			conj(g.kids[1])
			g = g.kids[2]
		}
		cp.Goal = g.String()
		o = &cp
	}
	var b strings.Builder
	if withModel {
		b.WriteString("(set-option :produce-models true)\n")
	}
	b.WriteString(x.preamble())
	for _, l := range lines {
		b.WriteString(l)
		b.WriteByte('\n')
	}
	rounds := 1
	if len(plainRounds) > 0 {
		rounds = plainRounds[0]
	}
	if inst {
		rounds = 3
	}
	lp := x.prog
	if rounds == 0 {
		// variant without the lemma families (marker-requested lemmas only)
		q := *x.prog
		q.noFamilies = true
		lp = &q
		rounds = 1
	} else if rounds == -1 {
		// variant with the single-phase, loosely matched lemma instantiation
		q := *x.prog
		q.legacyLemmas = true
		lp = &q
		rounds = 1
	}
	lemmaGoal := o.Goal
	if inst {
		// the lemmas are instantiated at the terms of the skolemised goal (same skolem names as below)
		if _, _, ng := preInstantiate(nil, o.PC, o.Goal, 0, nil); strings.HasPrefix(ng, "(assert (not ") {
			lemmaGoal = strings.TrimSuffix(strings.TrimPrefix(ng, "(assert (not "), "))")
		}
	}
	li := lp.lemmaInstancesN(lines, lemmaGoal, rounds)
	var decls, extra []string
	negGoal := sx("assert", not(o.Goal))
	if inst {
		hyps := lines
		if li != "" {
			hyps = append(append([]string{}, lines...), strings.Split(li, "\n")...)
		}
		var lemmaLines []string
		if li != "" {
			lemmaLines = strings.Split(li, "\n")
		}
		decls, extra, negGoal = preInstantiate(hyps, o.PC, o.Goal, 0, x.baseSorts(), lemmaLines...)
	}
	for _, d := range decls {
		b.WriteString(d + "\n")
	}
	b.WriteString(li) // after the skolem declarations: the instances may mention them
	for _, e := range extra {
		b.WriteString(e + "\n")
	}
	b.WriteString(sx("assert", o.PC) + "\n")
	b.WriteString(negGoal + "\n")
	b.WriteString("(check-sat)\n")
	if withModel && len(o.ModelTerms) > 0 {
		b.WriteString("(get-value (" + strings.Join(o.ModelTerms, " ") + "))\n")
	}
	return b.String()
}

// ---------------------------------------------------------------------------------------
// CFG helpers

func findLoops(fn *ssa.Function) (map[*ssa.BasicBlock]*Loop, []*Loop) {
	loops := map[*ssa.BasicBlock]*Loop{}
	for _, b := range fn.Blocks {
		for _, s := range b.Succs {
			if s.Dominates(b) {
				l := loops[s]
				if l == nil {
					l = &Loop{Header: s, Body: map[*ssa.BasicBlock]bool{s: true}}
					loops[s] = l
				}
				l.Latches = append(l.Latches, b)
				// collect body: nodes reaching b without passing through s
				stack := []*ssa.BasicBlock{b}
				for len(stack) > 0 {
					n := stack[len(stack)-1]
					stack = stack[:len(stack)-1]
					if l.Body[n] {
						continue
					}
					l.Body[n] = true
					stack = append(stack, n.Preds...)
				}
			}
		}
	}
	var list []*Loop
	for _, l := range loops {
		list = append(list, l)
	}
	sort.Slice(list, func(i, j int) bool { return list[i].Header.Index < list[j].Header.Index })
	for i, l := range list {
		l.Ordinal = i + 1
	}
	return loops, list
}

// topoOrder returns the blocks in an order where every non-back-edge predecessor comes first.
func topoOrder(fn *ssa.Function) []*ssa.BasicBlock {
	visited := map[*ssa.BasicBlock]bool{}
	var post []*ssa.BasicBlock
	var dfs func(b *ssa.BasicBlock)
	dfs = func(b *ssa.BasicBlock) {
		visited[b] = true
		for _, s := range b.Succs {
			if !visited[s] {
				dfs(s)
			}
		}
		post = append(post, b)
	}
	if len(fn.Blocks) > 0 {
		dfs(fn.Blocks[0])
	}
	for i, j := 0, len(post)-1; i < j; i, j = i+1, j-1 {
		post[i], post[j] = post[j], post[i]
	}
	return post
}

// baseSorts: declared sorts of the initial heap symbols (declared in the preamble).
func (x *Exec) baseSorts() map[string]string {
	m := map[string]string{}
	for c, s := range x.compSorts {
		m[sanitize(c)+"@0"] = s
	}
	return m
}
