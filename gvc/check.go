package main

// Property-level driver: which functions belong to a property, VC generation per function,
// discharge, reporting and evidence.

import (
	"encoding/json"
	"fmt"
	"go/types"
	"os"
	"path/filepath"
	"sort"
	"strings"
	"sync"
	"time"

	"golang.org/x/tools/go/ssa"
)

// verifyFunction generates all obligations of one function (instance).
var propertyOptions = map[string][]string{}

func verifyFunction(prog *Program, cs *ContractSet, property string, fn *ssa.Function, c *Contract, label string) (x *Exec) {
	x = newExec(prog, cs, property)
	for _, o := range propertyOptions[property] {
		if o == "implicit-frame-contracts" {
			x.implicitFrame = true
		}
	}
	x.topLabel = label
	defer func() {
		if r := recover(); r != nil {
			x.internalErr = fmt.Sprintf("internal error while generating VCs for %s: %v", label, r)
			if os.Getenv("GVC_DEBUG") != "" {
				panic(r)
			}
		}
	}()
	x.withTypeArgs(fn)
	fr := x.newFrame(fn, 0)
	fr.top = true
	fr.contract = c
	x.topContract = c
	x.topFrame = fr
	st := &State{H: map[string]string{}}
	alloc0 := x.alloc(st)
	x.assume("true", sx(">", alloc0, "0"))
	for _, p := range fn.Params {
		v := x.freshVal("p_"+p.Name(), p.Type())
		x.assume("true", x.typeInv(v, st))
		fr.vals[p] = v
		fr.params = append(fr.params, v)
		if sl, ok := p.Type().Underlying().(*types.Slice); ok {
			for k := range layout(sl.Elem()) {
				x.anchor(fmt.Sprintf("E$%s$%d", typeKey(sl.Elem()), k), v.base())
			}
		}
		x.assume("true", x.deepTypeInv(v, st, 0))
	}
	for _, fv := range fn.FreeVars {
		v := x.freshVal("fv_"+fv.Name(), fv.Type())
		x.assume("true", x.typeInv(v, st))
		fr.vals[fv] = v
	}
	fr.entry = st.clone()
	fr.allocEntry = alloc0
	env := x.funcEnv(fr, st)
	if c != nil {
		for _, cl := range c.Requires {
			x.assume("true", x.evalBool(env, cl.E))
			x.requiresSrc = append(x.requiresSrc, cl.Src)
		}
		for _, cl := range c.Scopes {
			if x.clauseActive(c, cl) {
				x.assume("true", x.evalBool(env, cl.E))
				x.scopeSrc = append(x.scopeSrc, cl.Src)
			}
		}
		for _, ml := range c.Modifies {
			fr.modLocs = append(fr.modLocs, x.evalLoc(env, ml)...)
		}
	}
	x.vacuityPrefix = len(x.lines)
	x.runFunction(fr, st, "true")
	return x
}

func (x *Exec) checkPost(fr *Frame, vals []Val, st *State, pc string) {
	c := fr.contract
	if c == nil {
		return
	}
	env := x.funcEnv(fr, st)
	sig := fr.fn.Signature
	var res Val
	switch len(vals) {
	case 0:
	case 1:
		res = vals[0]
	default:
		var cs []string
		for _, v := range vals {
			cs = append(cs, v.C...)
		}
		res = Val{T: sig.Results(), C: cs}
	}
	for k, v := range resultVars(sig, res) {
		env.vars[k] = v
	}
	for k, cl := range c.Ensures {
		if !x.clauseActive(c, cl) {
			continue
		}
		label := cl.Label
		if label == "" {
			label = fmt.Sprint(k + 1)
		}
		g := x.evalBool(env, cl.E)
		x.oblige(fr, "post", label, x.clauseTags(c, cl), g, pc, "postcondition", cl.Src)
	}
}

// ---------------------------------------------------------------------------------------
// property map

type PropertyDef struct {
	ID      string
	Roots   []string // patterns over contract targets / function keys
	Sweep   []string // functions verified for panic-freedom only (no contract needed)
	Lemmas  []string
	Options []string // engine options for this property (implicit-frame-contracts)
	Kinds   []string // when set: only obligations of these kinds decide the property (e.g. frame pre unsupported)
}

func loadPropertyMap(file string) (map[string]*PropertyDef, error) {
	b, err := os.ReadFile(file)
	if err != nil {
		return nil, err
	}
	out := map[string]*PropertyDef{}
	for _, line := range strings.Split(string(b), "\n") {
		line = strings.TrimSpace(line)
		if line == "" || strings.HasPrefix(line, "#") {
			continue
		}
		f := strings.Fields(line)
		head := strings.TrimSuffix(f[0], ":")
		kind := "roots"
		if i := strings.Index(head, "/"); i > 0 {
			kind = head[i+1:]
			head = head[:i]
		}
		pd := out[head]
		if pd == nil {
			pd = &PropertyDef{ID: head}
			out[head] = pd
		}
		switch kind {
		case "roots":
			pd.Roots = append(pd.Roots, f[1:]...)
		case "sweep":
			pd.Sweep = append(pd.Sweep, f[1:]...)
		case "lemmas":
			pd.Lemmas = append(pd.Lemmas, f[1:]...)
		case "kinds":
			pd.Kinds = append(pd.Kinds, f[1:]...)
		case "options":
			pd.Options = append(pd.Options, f[1:]...)
		}
	}
	return out, nil
}

type workItem struct {
	fn    *ssa.Function
	c     *Contract
	label string
}

func instanceLabel(fn *ssa.Function) string {
	k := funcKey(fn)
	if len(fn.TypeArgs()) > 0 {
		var ts []string
		for _, t := range fn.TypeArgs() {
			ts = append(ts, types.TypeString(t, func(p *types.Package) string { return p.Name() }))
		}
		k += "[" + strings.Join(ts, ",") + "]"
	}
	return k
}

// allModuleFuncKeys lists every function of the module (methods included).
func allModuleFuncs(prog *Program) map[string][]*ssa.Function {
	out := map[string][]*ssa.Function{}
	add := func(fn *ssa.Function) {
		if fn == nil || fn.Blocks == nil || fn.Synthetic != "" && !strings.Contains(fn.Synthetic, "instance") {
			return
		}
		if fn.TypeParams().Len() > 0 && len(fn.TypeArgs()) == 0 {
			return // uninstantiated generic
		}
		out[funcKey(fn)] = append(out[funcKey(fn)], fn)
	}
	for fn := range allFunctions(prog) {
		if fn.Pkg == nil && fn.Origin() == nil {
			continue
		}
		x := &Exec{prog: prog}
		if !x.inModule(fn) {
			continue
		}
		if fn.Name() == "init" {
			continue
		}
		add(fn)
	}
	for k := range out {
		sortFuncs(out[k])
	}
	return out
}

func resolveItems(prog *Program, cs *ContractSet, patterns []string, all map[string][]*ssa.Function) ([]workItem, []string) {
	var items []workItem
	var missing []string
	seen := map[string]bool{}
	keys := make([]string, 0, len(all))
	for k := range all {
		keys = append(keys, k)
	}
	sort.Strings(keys)
	for _, pat := range patterns {
		found := false
		for _, k := range keys {
			if !matchKey(pat, k) {
				continue
			}
			for _, fn := range all[k] {
				lbl := instanceLabel(fn)
				if seen[lbl] {
					found = true
					continue
				}
				seen[lbl] = true
				x := &Exec{prog: prog, cs: cs}
				items = append(items, workItem{fn: fn, c: x.contractFor(fn), label: lbl})
				found = true
			}
		}
		if !found {
			missing = append(missing, pat)
		}
	}
	return items, missing
}

// ---------------------------------------------------------------------------------------
// running a property check

type CheckResult struct {
	Property    string
	Tier        string
	Obligations []*Obligation
	Failed      []*Obligation
	Known       []string
	Broken      []string // machinery problems (spec errors, missing targets, ...)
	Execs       []*Exec
	Items       []workItem
	Wall        float64
	GenSecs     float64
}

func kindInProperty(o *Obligation, pd *PropertyDef) bool {
	if len(pd.Kinds) == 0 {
		return true
	}
	for _, k := range pd.Kinds {
		if o.Kind == k {
			return true
		}
	}
	// frame sweep: a postcondition that promises freshness ("the result is a new object") is what
	// the callers' frame arguments rest on, so it is decided here as well
	if o.Kind == "post" && strings.Contains(o.Src, "fresh(") {
		for _, opt := range pd.Options {
			if opt == "implicit-frame-contracts" {
				return true
			}
		}
	}
	return false
}

func obligationInProperty(o *Obligation, property string) bool {
	if property == "" || len(o.Tags) == 0 {
		return true
	}
	return hasTag(o.Tags, property)
}

func runCheck(prog *Program, cs *ContractSet, pd *PropertyDef, tier string, workers int) *CheckResult {
	start := time.Now()
	res := &CheckResult{Property: pd.ID, Tier: tier}
	propertyOptions[pd.ID] = pd.Options
	all := allModuleFuncs(prog)
	items, missing := resolveItems(prog, cs, append(append([]string{}, pd.Roots...), pd.Sweep...), all)
	for _, m := range missing {
		res.Broken = append(res.Broken, "contract-target-missing: "+m)
	}
	// contracts whose target does not exist (renamed / deleted function)
	for tgt, c := range cs.ByTarget {
		if strings.HasPrefix(tgt, "iface:") || strings.Contains(tgt, "functype:") || c.Trusted {
			continue
		}
		if _, ok := all[tgt]; !ok && len(c.Tags) > 0 && hasTag(c.Tags, pd.ID) {
			res.Broken = append(res.Broken, "contract-target-missing: "+tgt)
		}
	}
	// generate VCs (worklist: contracts used at call sites are verified in the same run)
	done := map[string]bool{}
	var mu sync.Mutex
	queue := items
	for len(queue) > 0 {
		batch := queue
		queue = nil
		var wg sync.WaitGroup
		execs := make([]*Exec, len(batch))
		sem := make(chan struct{}, workers)
		for k, it := range batch {
			if done[it.label] {
				continue
			}
			done[it.label] = true
			wg.Add(1)
			go func(k int, it workItem) {
				defer wg.Done()
				sem <- struct{}{}
				defer func() { <-sem }()
				execs[k] = verifyFunction(prog, cs, pd.ID, it.fn, it.c, it.label)
			}(k, it)
		}
		wg.Wait()
		for k, x := range execs {
			if x == nil {
				continue
			}
			res.Execs = append(res.Execs, x)
			res.Items = append(res.Items, batch[k])
			mu.Lock()
			for key, fn := range x.usedContracts {
				for _, inst := range all[key] {
					_ = fn
					lbl := instanceLabel(inst)
					if !done[lbl] {
						xx := &Exec{prog: prog, cs: cs}
						queue = append(queue, workItem{fn: inst, c: xx.contractFor(inst), label: lbl})
					}
				}
			}
			mu.Unlock()
		}
	}
	res.GenSecs = time.Since(start).Seconds()
	// collect obligations
	for _, x := range res.Execs {
		if x.internalErr != "" {
			res.Broken = append(res.Broken, x.internalErr)
		}
		for _, e := range x.specErrors {
			res.Broken = append(res.Broken, e)
		}
		for _, o := range x.obls {
			if obligationInProperty(o, pd.ID) && kindInProperty(o, pd) {
				res.Obligations = append(res.Obligations, o)
			}
		}
	}
	// discharge
	timeout := 10
	if tier == "thorough" {
		timeout = 60
	}
	if v := os.Getenv("GVC_TIMEOUT"); v != "" {
		fmt.Sscanf(v, "%d", &timeout)
	}
	var wg sync.WaitGroup
	for _, o := range res.Obligations {
		wg.Add(1)
		go func(o *Obligation) {
			defer wg.Done()
			if o.Goal == "true" {
				o.Result = SolverResult{Status: "unsat", Solver: "trivial"}
				return
			}
			cross := tier == "thorough" && os.Getenv("GVC_NOCROSS") == ""
			if prog.known.match(pd.ID, o.Name) != nil {
				// expected to fail: one attempt on the cone of influence is enough to see whether it still does
				o.Result = solve(o.exec.slicedQuery(o, -1, true), 5, false, false)
				return
			}
			o.Result = discharge(o, timeout, cross)
		}(o)
	}
	wg.Wait()
	for _, o := range res.Obligations {
		if o.Result.Status != "unsat" {
			res.Failed = append(res.Failed, o)
		}
	}
	res.Wall = time.Since(start).Seconds()
	return res
}

// ---------------------------------------------------------------------------------------
// vacuity: the assumptions at function entry must be satisfiable

func vacuityQueries(res *CheckResult) []string {
	var broken []string
	var wg sync.WaitGroup
	var mu sync.Mutex
	for _, x := range res.Execs {
		if len(x.requiresSrc)+len(x.scopeSrc) == 0 {
			continue
		}
		wg.Add(1)
		go func(x *Exec) {
			defer wg.Done()
			o := &Obligation{Prefix: x.vacuityPrefix, PC: "true", Goal: "false", exec: x}
			// quantifier-free weakening of the entry assumptions: unsat here implies the real
			// preconditions are contradictory; it answers in milliseconds
			r := solve(x.cexQuery(o)+"(check-sat)\n", 5, false, false)
			if r.Status == "unsat" {
				mu.Lock()
				broken = append(broken, "vacuous-precondition: "+x.topLabel+" (requires/scope clauses are contradictory)")
				mu.Unlock()
			}
		}(x)
	}
	// reachability of the function body: the last return in source order (the normal way out) must
	// be reachable under the preconditions and the assumed contracts of the callees; otherwise every
	// obligation behind the contradiction would be discharged vacuously
	for _, x := range res.Execs {
		if len(x.returnPoints) == 0 || (x.topContract != nil && x.topContract.Implicit) {
			continue
		}
		wg.Add(1)
		go func(x *Exec) {
			defer wg.Done()
			last := x.returnPoints[0]
			for _, rp := range x.returnPoints {
				if rp.line > last.line {
					last = rp
				}
			}
			o := &Obligation{Prefix: last.prefix, PC: last.pc, Goal: "false", exec: x}
			r := solve(x.cexQuery(o)+"(check-sat)\n", 5, false, false)
			if r.Status == "unsat" {
				mu.Lock()
				broken = append(broken, fmt.Sprintf("vacuous-body: %s (the return at line %d is unreachable under the contract's assumptions)", x.topLabel, last.line))
				mu.Unlock()
			}
		}(x)
	}
	wg.Wait()
	sort.Strings(broken)
	return broken
}

// ---------------------------------------------------------------------------------------
// evidence

type Evidence struct {
	PropertyID  string         `json:"property_id"`
	Tier        string         `json:"tier"`
	Seed        int            `json:"seed"`
	Level       string         `json:"level"`
	Coverage    map[string]any `json:"coverage"`
	Assumptions []string       `json:"assumptions"`
	WallS       float64        `json:"wall_s"`
	Violations  int            `json:"violations"`
}

func writeEvidence(verifDir string, res *CheckResult, cs *ContractSet, extra map[string]any, violations int, seed int) error {
	discharged := 0
	bySolver := map[string]int{}
	var solverSecsTotal float64
	var samples []any
	byKind := map[string]int{}
	for _, o := range res.Obligations {
		byKind[o.Kind]++
		if o.Result.Status == "unsat" {
			discharged++
			bySolver[strings.TrimSuffix(o.Result.Solver, " (cached)")]++
		}
		solverSecsTotal += o.Result.Seconds
	}
	// samples: up to 12 obligations, spread over kinds
	perKind := map[string]int{}
	for _, o := range res.Obligations {
		if perKind[o.Kind] >= 3 || len(samples) >= 14 {
			continue
		}
		perKind[o.Kind]++
		samples = append(samples, map[string]any{
			"obligation": o.Name, "kind": o.Kind, "clause": o.Src, "status": o.Result.Status,
			"backend": o.Result.Solver, "solver_s": round3(o.Result.Seconds), "at": fmt.Sprintf("%s:%d", relPath(o.Pos.Filename), o.Pos.Line),
		})
	}
	var funcs []string
	var assumedElsewhere []string
	trusted := map[string]bool{}
	inlined := map[string]bool{}
	var scopes []string
	for k, x := range res.Execs {
		it := res.Items[k]
		kind := "contract"
		if it.c == nil {
			kind = "panic-sweep only"
		}
		funcs = append(funcs, fmt.Sprintf("%s (%s, %d obligations)", x.topLabel, kind, len(x.obls)))
		if it.c != nil && len(it.c.Tags) > 0 && !hasTag(it.c.Tags, res.Property) {
			assumedElsewhere = append(assumedElsewhere, fmt.Sprintf("%s (decided by %s)", x.topLabel, strings.Join(it.c.Tags, ",")))
		}
		for t := range x.trustedUsed {
			trusted[t] = true
		}
		for t := range x.inlined {
			inlined[t] = true
		}
		for _, s := range x.scopeSrc {
			scopes = append(scopes, x.topLabel+": "+s)
		}
	}
	sort.Strings(funcs)
	var tb []string
	for t := range trusted {
		doc := intrinsicDocs[t]
		if doc != "" {
			tb = append(tb, "trusted model: "+t+" — "+doc)
		} else {
			tb = append(tb, "trusted contract: "+t)
		}
	}
	sort.Strings(tb)
	tb = append(tb, "go/packages + go/ssa (x/tools v0.29.0) construction of SSA from /repo's working tree",
		"SMT solvers z3 5.1.0 (z3-new), z3 4.8.12, cvc5 1.0.3", "the gvc VC generator itself (guarded by the must-fail selftest corpus)")
	var inl []string
	for t := range inlined {
		inl = append(inl, t)
	}
	sort.Strings(inl)
	sort.Strings(scopes)
	cov := map[string]any{
		"obligations":              len(res.Obligations) - len(res.Known),
		"known_finding_obligations": len(res.Known),
		"discharged":               discharged,
		"checker_cmd":              fmt.Sprintf("./bin/gvc check -property %s -tier %s", res.Property, res.Tier),
		"trusted_base":             tb,
		"samples":                  samples,
		"functions_under_contract": funcs,
		"obligations_by_kind":      byKind,
		"discharged_by_backend":    bySolver,
		"solver_time_s":            round3(solverSecsTotal),
		"vc_generation_s":          round3(res.GenSecs),
		"inlined_functions":        inl,
		"scope_preconditions":      scopes,
		"contracts_from_mirror":    cs.Mirror,
		"contracts_used_but_decided_by_other_properties": assumedElsewhere,
		"known_findings_reported":  res.Known,
	}
	for k, v := range extra {
		cov[k] = v
	}
	assumptions := []string{
		"integers of type int/int64/uint64 in shape, index and count arithmetic are mathematical (no 64-bit overflow); sized conversions are modelled exactly",
		"partial correctness: termination is not proved",
		"dependency code (gorgonia.org/tensor, protobuf, standard library) behaves as its trusted model / trusted contract states (listed in coverage.trusted_base)",
		"every non-nil tensor.Tensor value is a *tensor.Dense",
		"package-level variables of the module are not mutated from outside the module (stores inside the module are reported as violations)",
		"spare capacity of caller-supplied slices (beyond len) is not observed by callers (append may write there)",
		"floating point: comparisons, negation, abs, float32<->float64 conversions, integer literals converted to float and NaN/Inf classification are interpreted in the SMT floating-point theory; the conversion of a non-literal integer to float (int_to_f32 / int_to_f64) and of a float to an integer (one function per type pair) are uninterpreted - contracts pin which conversion is applied to which value, not its numeric result; IEEE +, -, *, / are opaque function symbols (results equal only for equal operands); math.F and gorgonia's scalar kernels (exp, tanh) are uninterpreted - their accuracy and special-value behaviour are assumed, not proved",
		"generic element: clauses over gen32/gen64/genb speak about one arbitrary element position; gorgonia's pointwise kernels are assumed to combine operands position by position (equal shapes, or one scalar operand) as their trusted models state",
	}
	ev := Evidence{PropertyID: res.Property, Tier: res.Tier, Seed: seed, Level: "proof", Coverage: cov,
		Assumptions: assumptions, WallS: round3(res.Wall), Violations: violations}
	b, err := json.MarshalIndent(ev, "", " ")
	if err != nil {
		return err
	}
	evDir := envOr("GVC_EVIDENCE_DIR", filepath.Join(verifDir, "evidence"))
	os.MkdirAll(evDir, 0o755)
	return os.WriteFile(filepath.Join(evDir, res.Property+".json"), b, 0o644)
}

func round3(f float64) float64 { return float64(int(f*1000+0.5)) / 1000 }

func relPath(p string) string {
	if i := strings.Index(p, "/repo/"); i >= 0 {
		return p[i+6:]
	}
	return p
}

// deepTypeInv: type invariants of the fields reachable from a parameter through one or two
// pointer-to-struct hops (entry state).
func (x *Exec) deepTypeInv(v Val, st *State, depth int) string {
	if depth > 1 || v.T == nil {
		return "true"
	}
	p, ok := v.T.Underlying().(*types.Pointer)
	if !ok {
		return "true"
	}
	stt, ok := p.Elem().Underlying().(*types.Struct)
	if !ok || isDensePtr(v.T) {
		return "true"
	}
	sv := x.load(st, x.objAddr(p.Elem(), v.C[0]))
	var cs []string
	for i := 0; i < stt.NumFields(); i++ {
		lo, hi := fieldRange(stt, i)
		fv := Val{T: stt.Field(i).Type(), C: sv.C[lo:hi]}
		cs = append(cs, x.typeInv(fv, st), x.deepTypeInv(fv, st, depth+1))
	}
	return implies(not(eq(v.C[0], "0")), and(cs...))
}
