package main

// Logic-level lemmas over prelude functions (contracts/lemmas.smt2). Each lemma is proved on its
// own in every run (by induction where stated, the induction hypothesis supplied explicitly) and
// is then available as an axiom to the queries that mention its trigger function.

import (
	"regexp"
	"fmt"
	"os"
	"path/filepath"
	"sort"
	"strings"
)

type SmtLemma struct {
	Name    string
	Vars    []*sx_ // (name sort)
	Induct  string
	Hyp     *sx_
	Concl   *sx_
	Pattern []*sx_
	Trigger string // function symbol that makes the lemma relevant
	Axiom   bool   // definitional axiom of an uninterpreted prelude function: not proved
	Also    []string // variables that move together with the induction variable
	QPattern  []*sx_   // trigger of the partially instantiated (schematic) form; default: the lemma's pattern
	Schematic []string // variables kept universally quantified in an additional, partially instantiated form
	UsePred  bool    // write (- A 1) as B when A is defined as B + 1 (like the axioms)
	Eager    bool    // definitional, non-recursive: instantiated at every new ground term in every variant
	Monotone bool    // hyp(n) implies hyp(n-1): checked separately, lets the step use concl(n-1) directly
}

func loadSmtLemmas(verifDir string) ([]*SmtLemma, error) {
	b, err := os.ReadFile(filepath.Join(verifDir, "contracts", "lemmas.smt2"))
	if err != nil {
		if os.IsNotExist(err) {
			return nil, nil
		}
		return nil, err
	}
	var out []*SmtLemma
	for _, form := range sexprSplit(stripComments(string(b))) {
		t := parseSexpr(form)
		if t == nil || t.head() != "lemma" || len(t.kids) < 3 {
			continue
		}
		lm := &SmtLemma{Name: t.kids[1].atom, Hyp: &sx_{atom: "true"}}
		for _, k := range t.kids[2:] {
			switch k.head() {
			case "vars":
				lm.Vars = k.kids[1:]
			case "induct":
				lm.Induct = k.kids[1].atom
				for _, extra := range k.kids[2:] {
					if extra.head() == "also" {
						for _, v := range extra.kids[1:] {
							lm.Also = append(lm.Also, v.atom)
						}
					}
				}
			case "hyp":
				lm.Hyp = k.kids[1]
			case "concl":
				lm.Concl = k.kids[1]
			case "pattern":
				lm.Pattern = k.kids[1:]
			case "trigger":
				lm.Trigger = k.kids[1].atom
			case "axiom":
				lm.Axiom = true
			case "monotone":
				lm.Monotone = true
			case "pred":
				lm.UsePred = true
			case "eager":
				lm.Eager = true
			case "qpattern":
				lm.QPattern = k.kids[1:]
			case "schematic":
				for _, v := range k.kids[1:] {
					lm.Schematic = append(lm.Schematic, v.atom)
				}
			}
		}
		if lm.Concl == nil {
			return nil, fmt.Errorf("lemma %s has no conclusion", lm.Name)
		}
		out = append(out, lm)
	}
	return out, nil
}

func (lm *SmtLemma) axiom() string {
	var vs []string
	for _, v := range lm.Vars {
		vs = append(vs, v.String())
	}
	body := "(=> " + lm.Hyp.String() + " " + lm.Concl.String() + ")"
	if len(lm.Pattern) > 0 {
		var ps []string
		for _, p := range lm.Pattern {
			ps = append(ps, p.String())
		}
		body = "(! " + body + " :pattern (" + strings.Join(ps, " ") + "))"
	}
	return "(assert (forall (" + strings.Join(vs, " ") + ") " + body + "))"
}

// lemmaObligations builds the proof obligations of one lemma (base + step for inductive ones).
func (lm *SmtLemma) queries(p *Program, prelude string, earlier []*SmtLemma) map[string]string {
	var decl strings.Builder
	decl.WriteString(prelude + "\n")
	for _, v := range lm.Vars {
		decl.WriteString(fmt.Sprintf("(declare-const %s %s)\n", v.kids[0].atom, v.kids[1].String()))
	}
	finish := func(asserts []string) string {
		sub := &Program{lemmas: earlier}
		// the last assert is the negated goal: skolemise it and instantiate the hypotheses at its terms
		body := asserts[:len(asserts)-1]
		last := asserts[len(asserts)-1]
		goal := strings.TrimSuffix(strings.TrimPrefix(last, "(assert (not "), "))")
		decls, extra, neg := preInstantiate(body, "true", goal, 9, nil)
		return decl.String() + strings.Join(body, "\n") + "\n" + strings.Join(decls, "\n") + "\n" + strings.Join(extra, "\n") + "\n" +
			sub.lemmaInstancesOnce(asserts, "", nil, 0) + neg + "\n(check-sat)\n"
	}
	out := map[string]string{}
	if lm.Induct == "" {
		out["direct"] = finish([]string{"(assert " + lm.Hyp.String() + ")", "(assert (not " + lm.Concl.String() + "))"})
		return out
	}
	n := lm.Induct
	pred := parseSexpr("(- " + n + " 1)")
	out["base"] = finish([]string{fmt.Sprintf("(assert (<= %s 0))", n), "(assert " + lm.Hyp.String() + ")", "(assert (not " + lm.Concl.String() + "))"})
	ihHyp := substAtom(lm.Hyp, n, pred)
	ihConcl := substAtom(lm.Concl, n, pred)
	for _, v := range lm.Also {
		pv := parseSexpr("(- " + v + " 1)")
		ihHyp = substAtom(ihHyp, v, pv)
		ihConcl = substAtom(ihConcl, v, pv)
	}
	if lm.Monotone {
		out["mono"] = finish([]string{fmt.Sprintf("(assert (> %s 0))", n), "(assert " + lm.Hyp.String() + ")", "(assert (not " + ihHyp.String() + "))"})
		out["step"] = finish([]string{fmt.Sprintf("(assert (> %s 0))", n), "(assert " + lm.Hyp.String() + ")",
			"(assert " + ihConcl.String() + ")", "(assert (not " + lm.Concl.String() + "))"})
		return out
	}
	out["step"] = finish([]string{fmt.Sprintf("(assert (> %s 0))", n), "(assert " + lm.Hyp.String() + ")",
		"(assert (=> " + ihHyp.String() + " " + ihConcl.String() + "))", "(assert (not " + lm.Concl.String() + "))"})
	return out
}

func runLemmas(prog *Program, cs *ContractSet, pd *PropertyDef, tier string) []*Obligation {
	var obls []*Obligation
	for i, lm := range prog.lemmas {
		if lm.Axiom {
			continue
		}
		qs := lm.queries(prog, "(declare-sort Str 0)\n"+prog.prelude, prog.lemmas[:i])
		for _, part := range []string{"direct", "base", "mono", "step"} {
			q, ok := qs[part]
			if !ok {
				continue
			}
			o := &Obligation{Name: "lemma:" + lm.Name + "#" + part, Func: "lemma:" + lm.Name, Kind: "lemma", Label: part,
				Src: "(=> " + lm.Hyp.String() + " " + lm.Concl.String() + ")", Desc: "prelude lemma"}
			o.Result = solve(q, 20, tier == "thorough", false)
			obls = append(obls, o)
		}
	}
	return obls
}

// collectApps gathers ground applications of fn (terms not mentioning bound variables).
func collectApps(n *sx_, fn string, bound map[string]bool, out map[string]*sx_) {
	if !n.isList() {
		return
	}
	if h := n.head(); (h == "forall" || h == "exists") && len(n.kids) == 3 {
		nb := map[string]bool{}
		for k := range bound {
			nb[k] = true
		}
		for _, b := range n.kids[1].kids {
			if len(b.kids) == 2 {
				nb[b.kids[0].atom] = true
			}
		}
		collectApps(n.kids[2], fn, nb, out)
		return
	}
	if n.head() == fn && !mentionsAny(n, bound) {
		out[n.String()] = n
	}
	for _, k := range n.kids {
		collectApps(k, fn, bound, out)
	}
}

// lemmaInstances instantiates every lemma at the ground applications of its trigger function
// occurring in the query (all tuples matching its pattern). Variables bound twice to different
// terms yield an equality premise. The instances contain no array-sorted quantifiers.
func (p *Program) lemmaInstances(lines []string, goal string) string {
	return p.lemmaInstancesN(lines, goal, 3)
}

// lemmaFamilies groups trigger functions whose lemmas are used together. A query gets the lemmas of
// the families whose functions occur in the goal or in the defining equations its symbols depend
// on (plus the marker-triggered lemmas, which are explicit requests). The legacy variant (mode 3
// of the ladder) keeps instantiating every family.
var lemmaFamilies = map[string]string{"prod": "prod", "nkept": "axes", "memb": "axes", "nnot1": "axes", "nkcong": "axes"}

func (p *Program) relevantLemmas(goal string, lines []string) map[*SmtLemma]bool {
	// the definition cone of the goal: its symbols and, transitively, the symbols of their
	// defining equations (heap components excluded: they connect everything)
	heapSym := func(s string) bool {
		return strings.HasPrefix(s, "E$") || strings.HasPrefix(s, "F$") || strings.HasPrefix(s, "G$") || strings.HasPrefix(s, "B$") ||
			strings.HasPrefix(s, "C$") || strings.HasPrefix(s, "MD$") || strings.HasPrefix(s, "MV$") || strings.HasPrefix(s, "GV$") || strings.HasPrefix(s, "$alloc")
	}
	cone := map[string]bool{}
	for _, sy := range lineSymbols(goal) {
		if !heapSym(sy) {
			cone[sy] = true
		}
	}
	text := goal
	defs := map[string][]string{}
	for _, l := range lines {
		if m := defRe.FindStringSubmatch(l); m != nil {
			defs[m[1]] = append(defs[m[1]], l)
		}
	}
	done := map[string]bool{}
	for changed := true; changed; {
		changed = false
		for sy := range cone {
			if done[sy] {
				continue
			}
			done[sy] = true
			for _, l := range defs[sy] {
				text += " " + l
				for _, s2 := range lineSymbols(l) {
					if !heapSym(s2) && !cone[s2] {
						cone[s2] = true
						changed = true
					}
				}
			}
		}
	}
	fams := map[string]bool{}
	for fn, fam := range lemmaFamilies {
		if strings.Contains(text, "("+fn+" ") {
			fams[fam] = true
		}
	}
	out := map[*SmtLemma]bool{}
	for _, lm := range p.lemmas {
		fam, ok := lemmaFamilies[lm.Trigger]
		if !ok || fams[fam] {
			out[lm] = true
		}
	}
	return out
}

func (p *Program) lemmaInstancesN(lines []string, goal string, rounds int) string {
	fullSecond := rounds >= 3
	if p.noFamilies {
		var ls []*SmtLemma
		for _, lm := range p.lemmas {
			if _, fam := lemmaFamilies[lm.Trigger]; !fam {
				ls = append(ls, lm)
			}
		}
		q := *p
		q.lemmas = ls
		p = &q
	} else if goal != "" && !p.legacyLemmas {
		rel := p.relevantLemmas(goal, lines)
		if len(rel) < len(p.lemmas) {
			var ls []*SmtLemma
			for _, lm := range p.lemmas {
				if rel[lm] {
					ls = append(ls, lm)
				}
			}
			q := *p
			q.lemmas = ls
			p = &q
		}
	}
	// a few rounds: instances of the defining axioms introduce new ground terms (one unfolding
	// step each) that later rounds can use
	all := ""
	seen := map[string]bool{}
	cur := append([]string{}, lines...)
	for round := 0; round < rounds; round++ {
		r := round
		if r == 1 && !fullSecond {
			r = 2
		}
		out := p.lemmaInstancesOnce(cur, goal, seen, r)
		if out == "" {
			break
		}
		all += out
		for _, l := range strings.Split(out, "\n") {
			if l != "" {
				seen[l] = true
				cur = append(cur, l)
			}
		}
		if len(all) > 400000 {
			break
		}
	}
	// eager (definitional, non-recursive) rules at the terms introduced by the instances that were
	// generated for the applications in the goal (goal-directed: instances for hypothesis terms
	// do not fan out any further)
	goalApps := map[string]bool{}
	if gt := parseSexpr(goal); gt != nil {
		for _, lm := range p.lemmas {
			if lm.Trigger == "" {
				continue
			}
			found := map[string]*sx_{}
			collectApps(gt, lm.Trigger, map[string]bool{}, found)
			for k := range found {
				goalApps[k] = true
			}
		}
	}
	var derived []string
	for _, l := range strings.Split(all, "\n") {
		for a := range goalApps {
			if strings.Contains(l, a) {
				derived = append(derived, l)
				break
			}
		}
	}
	for pass := 0; pass < 2 && len(derived) > 0; pass++ {
		out := p.lemmaInstancesOnce(derived, "", seen, -1)
		if out == "" {
			break
		}
		all += out
		derived = nil
		for _, l := range strings.Split(out, "\n") {
			if l != "" {
				seen[l] = true
				derived = append(derived, l)
			}
		}
	}
	return all
}

var succDefRe = regexp.MustCompile(`^\(assert \(= ([^\s()]+) \(\+ ([^\s()]+) 1\)\)\)$`)

// predecessors maps "(- A 1)" to B for every definition (= A (+ B 1)) among the lines, so that the
// unfolding of f(.., A) mentions f(.., B) rather than f(.., (- A 1)).
func predecessors(lines []string) *strings.Replacer {
	var pairs []string
	for _, l := range lines {
		if m := succDefRe.FindStringSubmatch(l); m != nil {
			pairs = append(pairs, "(- "+m[1]+" 1)", m[2])
		}
	}
	if len(pairs) == 0 {
		return nil
	}
	return strings.NewReplacer(pairs...)
}

func (p *Program) lemmaInstancesOnce(lines []string, goal string, skip map[string]bool, round int) string {
	if round == 0 && !p.legacyLemmas {
		// first round in two phases: the defining axioms, then the other lemmas, which see the
		// terms the unfolding introduced
		var ax, rest []*SmtLemma
		for _, lm := range p.lemmas {
			if lm.Axiom {
				ax = append(ax, lm)
			} else {
				rest = append(rest, lm)
			}
		}
		if len(ax) > 0 && len(rest) > 0 {
			pa, pr := *p, *p
			pa.lemmas, pr.lemmas = ax, rest
			first := pa.lemmaInstancesOnce(lines, goal, skip, -2)
			more := append([]string{}, lines...)
			for _, l := range strings.Split(first, "\n") {
				if l != "" {
					more = append(more, l)
				}
			}
			// goal-directed pairing: two-pattern lemmas only combine applications of which at least
			// one stems from the goal (occurs in it, or in an unfolding instance of a goal term)
			focus := map[string]bool{}
			if gt := parseSexpr(goal); gt != nil {
				for _, lm := range p.lemmas {
					if lm.Trigger != "" {
						found := map[string]*sx_{}
						collectApps(gt, lm.Trigger, map[string]bool{}, found)
						for k := range found {
							focus[k] = true
						}
					}
				}
			}
			if len(focus) > 0 {
				for _, l := range strings.Split(first, "\n") {
					hit := false
					for a := range focus {
						if strings.Contains(l, a) {
							hit = true
							break
						}
					}
					if !hit {
						continue
					}
					if t := parseSexpr(l); t != nil {
						for _, lm := range p.lemmas {
							if lm.Trigger != "" {
								found := map[string]*sx_{}
								collectApps(t, lm.Trigger, map[string]bool{}, found)
								for k := range found {
									focus[k] = true
								}
							}
						}
					}
				}
				pr.focus = focus
			}
			return first + pr.lemmaInstancesOnce(more, goal, skip, -2)
		}
	}
	var b strings.Builder
	later := len(skip) > 0
	pred := predecessors(lines)
	for _, lm := range p.lemmas {
		// the second round lets every lemma see the terms the first unfolding introduced; after
		// that only the defining axioms are unfolded further
		if later && !lm.Axiom && round != 1 {
			continue
		}
		if round == -1 && !lm.Eager {
			continue
		}
		if lm.Trigger == "" || len(lm.Pattern) == 0 {
			continue
		}
		apps := map[string]*sx_{}
		lastSeen := map[string]int{}
		probe := "(" + lm.Trigger + " "
		for li, l := range append(append([]string{}, lines...), goal) {
			if !strings.Contains(l, probe) {
				continue
			}
			if t := parseSexpr(l); t != nil {
				found := map[string]*sx_{}
				collectApps(t, lm.Trigger, map[string]bool{}, found)
				for k, v := range found {
					apps[k] = v
					lastSeen[k] = li
				}
			}
		}
		var keys []string
		for k := range apps {
			keys = append(keys, k)
		}
		sortStrings(keys)
		if later && lm.Axiom && !lm.Eager {
			// later rounds: only keep unfolding applications whose size argument is a small literal expression
			var ks []string
			for _, k := range keys {
				app := apps[k]
				sz := app.kids[len(app.kids)-1]
				if v, ok := litExprValue(sz); ok && v >= 0 && v <= 6 {
					ks = append(ks, k)
				} else if sz.head() == "-" && len(sz.kids) == 3 && !sz.kids[1].isList() && sz.kids[2].atom == "1" {
					// one symbolic unfolding step: prod(a, off, n-1) for an atomic n
					ks = append(ks, k)
				}
			}
			keys = ks
		}
		// prefer the applications closest to the obligation (latest lines, then the goal)
		sort.SliceStable(keys, func(i, j int) bool { return lastSeen[keys[i]] > lastSeen[keys[j]] })
		limit := 16
		if len(lm.Pattern) == 1 {
			limit = 40
		}
		if len(keys) > limit {
			keys = keys[:limit]
		}
		// enumerate tuples
		np := len(lm.Pattern)
		idx := make([]int, np)
		seen := map[string]bool{}
		for {
			if len(keys) == 0 {
				break
			}
			distinct := true
			for i := 0; i < np; i++ {
				for j := i + 1; j < np; j++ {
					if idx[i] == idx[j] {
						distinct = false
					}
				}
			}
			if np > 1 && p.focus != nil && distinct {
				any := false
				for i := 0; i < np; i++ {
					if p.focus[keys[idx[i]]] {
						any = true
					}
				}
				if !any {
					distinct = false
				}
			}
			if distinct || np == 1 {
				bind := map[string]*sx_{}
				var eqs []string
				ok := true
				for i := 0; i < np && ok; i++ {
					pat := lm.Pattern[i]
					app := apps[keys[idx[i]]]
					if len(pat.kids) != len(app.kids) {
						ok = false
						break
					}
					for a := 1; a < len(pat.kids); a++ {
						v := pat.kids[a]
						if v.isList() {
							ok = false
							break
						}
						if prev, have := bind[v.atom]; have {
							if prev.String() != app.kids[a].String() {
								// a variable matched by two different terms: keep the tuple (with an
								// equality premise) only for two symbols or two array terms; literals
								// and compound integer terms almost never turn out equal
								if !p.legacyLemmas && !looseMatch(prev, app.kids[a]) {
									ok = false
									break
								}
								eqs = append(eqs, eq(prev.String(), app.kids[a].String()))
							}
						} else {
							bind[v.atom] = app.kids[a]
						}
					}
				}
				if ok {
					hyp, concl := lm.Hyp, lm.Concl
					for name, t := range bind {
						hyp = substAtom(hyp, name, t)
						concl = substAtom(concl, name, t)
					}
					if len(lm.Schematic) > 0 && len(eqs) == 0 {
						if sch := lm.schematicInstance(bind); sch != "" && !seen[sch] && !skip[sch] {
							seen[sch] = true
							b.WriteString(sch + "\n")
						}
					}
					unboundSchematic := false
					for _, v := range lm.Schematic {
						if _, have := bind[v]; !have {
							unboundSchematic = true
						}
					}
					if unboundSchematic {
						// only the quantified form exists for this lemma
						goto nextTuple
					}
					inst := "(assert (=> " + and(append(eqs, hyp.String())...) + " " + concl.String() + "))"
					if pred != nil && (lm.Axiom || lm.UsePred) {
						inst = pred.Replace(inst)
					}
					if litFalse(hyp) {
						// the premise is false by literal arithmetic: the instance says nothing
						seen[inst] = true
					}
					for _, e := range eqs {
						if t := parseSexpr(e); t != nil && litFalse(t) {
							seen[inst] = true
						}
					}
					if !seen[inst] && !skip[inst] {
						seen[inst] = true
						b.WriteString(inst + "\n")
					}
				}
			}
		nextTuple:
			// next tuple
			k := np - 1
			for k >= 0 {
				idx[k]++
				if idx[k] < len(keys) {
					break
				}
				idx[k] = 0
				k--
			}
			if k < 0 {
				break
			}
		}
	}
	return b.String()
}

// boundedUnfold instantiates the defining axioms of uninterpreted recursive functions at
// small concrete sizes (last argument 0..depth) for every ground application in the lines.
// Used by the counterexample search so that small models are faithful.
func (p *Program) boundedUnfold(lines []string, goal string, depth int) string {
	var b strings.Builder
	seen := map[string]bool{}
	for _, lm := range p.lemmas {
		if !lm.Axiom || len(lm.Pattern) != 1 || lm.Trigger == "" {
			continue
		}
		apps := map[string]*sx_{}
		probe := "(" + lm.Trigger + " "
		for _, l := range append(append([]string{}, lines...), goal) {
			if strings.Contains(l, probe) {
				if t := parseSexpr(l); t != nil {
					collectApps(t, lm.Trigger, map[string]bool{}, apps)
				}
			}
		}
		var keys []string
		for k := range apps {
			keys = append(keys, k)
		}
		sortStrings(keys)
		pat := lm.Pattern[0]
		for _, k := range keys {
			app := apps[k]
			if len(app.kids) != len(pat.kids) {
				continue
			}
			for c := 0; c <= depth; c++ {
				hyp, concl := lm.Hyp, lm.Concl
				for a := 1; a < len(pat.kids); a++ {
					var t *sx_ = app.kids[a]
					if a == len(pat.kids)-1 {
						t = &sx_{atom: fmt.Sprint(c)}
					}
					hyp = substAtom(hyp, pat.kids[a].atom, t)
					concl = substAtom(concl, pat.kids[a].atom, t)
				}
				inst := "(assert (=> " + hyp.String() + " " + concl.String() + "))"
				if !seen[inst] {
					seen[inst] = true
					b.WriteString(inst + "\n")
				}
			}
		}
	}
	return b.String()
}

// relatedApps: heuristic filter for two-term lemma instances: the applications share an argument
// (for array arguments of the form (select H r): the same object reference r).
func relatedApps(a, b *sx_) bool {
	key := func(n *sx_) string {
		if n.head() == "select" && len(n.kids) == 3 {
			return "obj:" + n.kids[2].String()
		}
		return n.String()
	}
	for i := 1; i < len(a.kids); i++ {
		for j := 1; j < len(b.kids); j++ {
			ka, kb := key(a.kids[i]), key(b.kids[j])
			if ka == kb && ka != "0" && ka != "1" {
				return true
			}
		}
	}
	return false
}

// litExprValue evaluates +/- expressions over integer literals.
func litExprValue(n *sx_) (int64, bool) {
	if !n.isList() {
		return parseSMTIntStrict(n.atom)
	}
	if (n.head() == "+" || n.head() == "-") && len(n.kids) >= 2 {
		var acc int64
		for i, k := range n.kids[1:] {
			v, ok := litExprValue(k)
			if !ok {
				return 0, false
			}
			switch {
			case i == 0 && n.head() == "-" && len(n.kids) == 2:
				acc = -v
			case i == 0:
				acc = v
			case n.head() == "+":
				acc += v
			default:
				acc -= v
			}
		}
		return acc, true
	}
	return 0, false
}

// litFalse: the formula is false by evaluating comparisons between integer literals (conjunctions
// are false when one conjunct is).
func litFalse(n *sx_) bool {
	if !n.isList() {
		return n.atom == "false"
	}
	switch n.head() {
	case "and":
		for _, k := range n.kids[1:] {
			if litFalse(k) {
				return true
			}
		}
		return false
	case "<", "<=", ">", ">=", "=":
		if len(n.kids) != 3 {
			return false
		}
		a, ok1 := litExprValue(n.kids[1])
		b, ok2 := litExprValue(n.kids[2])
		if !ok1 || !ok2 {
			return false
		}
		switch n.head() {
		case "<":
			return !(a < b)
		case "<=":
			return !(a <= b)
		case ">":
			return !(a > b)
		case ">=":
			return !(a >= b)
		default:
			return a != b
		}
	}
	return false
}

// looseMatch: may two syntactically different terms bound to the same lemma variable be equal?
func looseMatch(a, b *sx_) bool {
	sym := func(t *sx_) bool {
		if t.isList() {
			return t.head() == "select" || t.head() == "store"
		}
		_, lit := parseSMTIntStrict(t.atom)
		return !lit
	}
	return sym(a) && sym(b)
}

// schematicInstance instantiates every variable but the schematic ones (which stay universally
// quantified over Int, with the lemma's pattern as trigger): no array-sorted quantifier remains.
func (lm *SmtLemma) schematicInstance(bind map[string]*sx_) string {
	keep := map[string]bool{}
	for _, v := range lm.Schematic {
		keep[v] = true
	}
	hyp, concl := lm.Hyp, lm.Concl
	src := lm.Pattern
	if len(lm.QPattern) > 0 {
		src = lm.QPattern
	}
	pats := make([]*sx_, len(src))
	copy(pats, src)
	for name, t := range bind {
		if keep[name] {
			continue
		}
		hyp = substAtom(hyp, name, t)
		concl = substAtom(concl, name, t)
		for i := range pats {
			pats[i] = substAtom(pats[i], name, t)
		}
	}
	var binders, ps []string
	for _, v := range lm.Schematic {
		binders = append(binders, "("+v+" Int)")
	}
	for _, p := range pats {
		ps = append(ps, p.String())
	}
	return "(assert (forall (" + strings.Join(binders, " ") + ") (! (=> " + hyp.String() + " " + concl.String() + ") :pattern (" + strings.Join(ps, " ") + "))))"
}
