package main

// Function-level driver: block ordering, merges, loops (cut at invariants), returns.

import (
	"fmt"
	"go/token"
	"go/types"
	"strings"

	"golang.org/x/tools/go/ssa"
)

type runResult struct {
	pc   string
	st   *State
	vals []Val
}

// runFunction symbolically executes fn from state st under path condition pc.
// For top-level verification fr.top is true and contract clauses generate obligations.
func (x *Exec) runFunction(fr *Frame, st *State, pc string) runResult {
	fn := fr.fn
	if len(fn.Blocks) == 0 {
		x.unsupportedf(fr, pc, "function %s has no body", fn)
		return runResult{pc: "false", st: st}
	}
	fr.loops, fr.loopList = findLoops(fn)
	order := topoOrder(fn)
	fr.entry = st.clone()
	fr.allocEntry = x.alloc(st)
	x.runBlocks(fr, order, st, pc, nil)
	return x.mergeReturns(fr)
}

func (x *Exec) mergeReturns(fr *Frame) runResult {
	if len(fr.rets) == 0 {
		return runResult{pc: "false", st: fr.entry.clone()}
	}
	if len(fr.rets) == 1 {
		r := fr.rets[0]
		return runResult{pc: r.pc, st: r.st, vals: r.vals}
	}
	var pcs []string
	var sts []*State
	for _, r := range fr.rets {
		pcs = append(pcs, r.pc)
		sts = append(sts, r.st)
	}
	pc := x.define("pc_ret", SBool, or(pcs...))
	st := x.mergeStates(pcs, sts)
	var vals []Val
	for i := range fr.rets[0].vals {
		var alts []Val
		for _, r := range fr.rets {
			alts = append(alts, r.vals[i])
		}
		vals = append(vals, x.mergeVals("ret", pcs, alts))
	}
	return runResult{pc: pc, st: st, vals: vals}
}

func (x *Exec) mergeVals(hint string, pcs []string, alts []Val) Val {
	same := true
	for _, a := range alts[1:] {
		for k := range a.C {
			if a.C[k] != alts[0].C[k] {
				same = false
			}
		}
	}
	if same {
		return alts[0]
	}
	out := Val{T: alts[0].T, C: make([]string, len(alts[0].C))}
	ly := layout(alts[0].T)
	for k := range out.C {
		allSame := true
		for _, a := range alts[1:] {
			if a.C[k] != alts[0].C[k] {
				allSame = false
			}
		}
		if allSame {
			out.C[k] = alts[0].C[k]
			continue
		}
		term := alts[len(alts)-1].C[k]
		for i := len(alts) - 2; i >= 0; i-- {
			term = ite(pcs[i], alts[i].C[k], term)
		}
		out.C[k] = x.define(hint+ly[k].Suffix, ly[k].Sort, term)
	}
	return out
}

func (x *Exec) mergeStates(pcs []string, sts []*State) *State {
	out := &State{H: map[string]string{}}
	keys := map[string]bool{}
	var order []string
	for _, s := range sts {
		for k := range s.H {
			if !keys[k] {
				keys[k] = true
				order = append(order, k)
			}
		}
	}
	sortStrings(order)
	for _, k := range order {
		sort := x.compSorts[k]
		first := x.comp(sts[0], k, sort)
		same := true
		for _, s := range sts[1:] {
			if x.comp(s, k, sort) != first {
				same = false
			}
		}
		if same {
			out.H[k] = first
			continue
		}
		sym := x.fresh(sanitize(k)+"@m", sort)
		for i, s := range sts {
			x.emit(sx("assert", implies(pcs[i], eq(sym, x.comp(s, k, sort)))))
			for _, b := range x.anchors[k] {
				x.emit(sx("assert", implies(pcs[i], eq(sel(sym, b), sel(x.comp(s, k, sort), b)))))
			}
		}
		out.H[k] = sym
	}
	return out
}

func sortStrings(s []string) {
	for i := 1; i < len(s); i++ {
		for j := i; j > 0 && s[j] < s[j-1]; j-- {
			s[j], s[j-1] = s[j-1], s[j]
		}
	}
}

func (fr *Frame) edgePC(from, to *ssa.BasicBlock) string {
	pc, ok := fr.outPC[from]
	if !ok {
		return "false"
	}
	if len(from.Succs) == 2 {
		ec := fr.edgeCond[from]
		if from.Succs[0] == to && from.Succs[1] == to {
			return pc
		}
		if from.Succs[0] == to {
			return and(pc, ec[0])
		}
		return and(pc, ec[1])
	}
	return pc
}

// runBlocks executes the given blocks (already in topological order). only != nil restricts
// execution to a loop body (used by the modification probe).
func (x *Exec) runBlocks(fr *Frame, order []*ssa.BasicBlock, st0 *State, pc0 string, only *Loop) {
	for _, b := range order {
		if only != nil && !only.Body[b] {
			continue
		}
		var pc string
		var st *State
		loop := fr.loops[b]
		isEntry := b == fr.fn.Blocks[0] && only == nil
		switch {
		case isEntry:
			pc, st = pc0, st0.clone()
		case only != nil && b == only.Header:
			// probe: start at the loop header with the supplied state
			pc, st = pc0, st0.clone()
			for _, ins := range b.Instrs {
				if phi, ok := ins.(*ssa.Phi); ok {
					pv := x.freshVal("probe_"+phi.Name(), phi.Type())
					fr.vals[phi] = pv
					if isSlice(phi.Type()) {
						if x.probePhis == nil {
							x.probePhis = map[string]*ssa.Phi{}
						}
						x.probePhis[pv.C[0]] = phi
					}
				}
			}
		default:
			var pcs []string
			var sts []*State
			var preds []*ssa.BasicBlock
			for _, p := range b.Preds {
				if loop != nil && isLatch(loop, p) {
					continue
				}
				if _, done := fr.outPC[p]; !done {
					continue
				}
				epc := fr.edgePC(p, b)
				if epc == "false" {
					continue
				}
				pcs = append(pcs, epc)
				sts = append(sts, fr.outSt[p])
				preds = append(preds, p)
			}
			if len(pcs) == 0 {
				fr.outPC[b] = "false"
				fr.outSt[b] = st0.clone()
				// still give phis some value so later references resolve
				for _, ins := range b.Instrs {
					if phi, ok := ins.(*ssa.Phi); ok {
						fr.vals[phi] = zeroVal(phi.Type())
					}
				}
				fr.vals2zero(b)
				continue
			}
			if loop != nil {
				// invariant must hold on every entry edge
				for i, p := range preds {
					x.checkInvariants(fr, loop, p, pcs[i], sts[i], "inv-entry")
				}
			}
			if len(pcs) == 1 {
				pc, st = pcs[0], sts[0].clone()
			} else {
				pc = x.define(fmt.Sprintf("pc_b%d", b.Index), SBool, or(pcs...))
				st = x.mergeStates(pcs, sts)
			}
			// phis
			for _, ins := range b.Instrs {
				phi, ok := ins.(*ssa.Phi)
				if !ok {
					break
				}
				if loop != nil {
					continue // havoced below
				}
				var alts []Val
				for _, p := range preds {
					alts = append(alts, x.valueOf(fr, phi.Edges[predIndex(b, p)]))
				}
				fr.vals[phi] = x.mergeVals(phiHint(phi), pcs, alts)
			}
			if loop != nil {
				x.enterLoop(fr, loop, st, pc)
			}
		}
		fr.curBlock, fr.curPC, fr.curSt = b, pc, st
		x.execBlock(fr, b)
		fr.outPC[b] = fr.curPC
		fr.outSt[b] = fr.curSt
		// loop left through the test in its header: exit assertions (proved from the invariant and the
		// negated test, then available behind the loop)
		if l := fr.loops[b]; l != nil && fr.contract != nil && x.probing == 0 && (only == nil || l != only) {
			for _, s := range b.Succs {
				if l.Body[s] {
					continue
				}
				for i, cl := range fr.contract.ExitAsserts[l.Ordinal] {
					if !x.clauseActive(fr.contract, cl) {
						continue
					}
					label := cl.Label
					if label == "" {
						label = fmt.Sprintf("x%d", i+1)
					}
					env := x.funcEnv(fr, fr.curSt)
					g := x.evalBool(env, cl.E)
					epc := fr.edgePC(b, s)
					x.oblige(fr, "exit", fmt.Sprintf("loop%d:%s", l.Ordinal, label), x.clauseTags(fr.contract, cl), g, epc, "state when the loop is left", cl.Src)
					x.assume(epc, g)
				}
			}
		}
		// back edges: invariant preservation
		for _, s := range b.Succs {
			if l := fr.loops[s]; l != nil && isLatch(l, b) {
				if only != nil && l == only {
					continue
				}
				x.checkInvariants(fr, l, b, fr.edgePC(b, s), fr.curSt, "inv-pres")
			}
		}
	}
}

func (fr *Frame) vals2zero(b *ssa.BasicBlock) {
	for _, ins := range b.Instrs {
		if v, ok := ins.(ssa.Value); ok {
			if _, have := fr.vals[v]; !have && v.Type() != nil {
				if _, isTuple := v.Type().(*types.Tuple); isTuple {
					fr.vals[v] = zeroVal(v.Type())
				} else {
					fr.vals[v] = zeroVal(v.Type())
				}
			}
		}
	}
}

func isLatch(l *Loop, b *ssa.BasicBlock) bool {
	for _, x := range l.Latches {
		if x == b {
			return true
		}
	}
	return false
}

func predIndex(b, p *ssa.BasicBlock) int {
	for i, q := range b.Preds {
		if q == p {
			return i
		}
	}
	return -1
}

func phiHint(phi *ssa.Phi) string {
	if phi.Comment != "" {
		return phi.Comment
	}
	return phi.Name()
}

// ---------------------------------------------------------------------------------------
// loops

// enterLoop havocs the loop-carried state at the header and assumes the invariant.
func (x *Exec) enterLoop(fr *Frame, loop *Loop, st *State, pc string) {
	// 1. probe which heap components the body may modify
	mods := x.probeLoop(fr, loop, st, pc)
	allocHead := x.alloc(st)
	// 3. havoc modified heap components, framed by object
	var names []string
	for name := range mods {
		names = append(names, name)
	}
	sortStrings(names)
	for _, name := range names {
		pi := mods[name]
		sort := x.compSorts[name]
		if name == "$alloc" {
			oldS, newS := x.havocComp(st, name, sort)
			x.assume("true", sx(">=", newS, oldS))
			continue
		}
		oldS, newS := x.havocComp(st, name, sort)
		if pi.whole || !strings.HasPrefix(sort, "(Array Int") {
			continue
		}
		// objects that exist at the loop head and are not store targets keep their value
		var conds []string
		conds = append(conds, sx("<", "r", allocHead))
		frameOK := true
		var tg []string
		for t := range pi.targets {
			tg = append(tg, t)
		}
		sortStrings(tg)
		for _, t := range tg {
			if x.allocTermInProbe(t) {
				continue // allocated inside the loop body: >= allocHead
			}
			conds = append(conds, not(eq("r", t)))
		}
		if frameOK {
			x.emit(sx("assert", fmt.Sprintf("(forall ((r Int)) (! (=> %s (= (select %s r) (select %s r))) :pattern ((select %s r))))",
				and(conds...), newS, oldS, newS)))
			for _, b := range x.anchors[name] {
				// the instance of the frame axiom at an anchored reference
				var cs []string
				for _, c := range conds {
					cs = append(cs, strings.ReplaceAll(strings.ReplaceAll(c, " r ", " "+b+" "), " r)", " "+b+")"))
				}
				x.emit(sx("assert", implies(and(cs...), eq(sel(newS, b), sel(oldS, b)))))
			}
		}
	}
	if _, ok := mods["$alloc"]; !ok {
		// allocation counter is monotone anyway
	}
	// havoc phis (after the heap, so that their type invariants refer to the loop-head allocation counter)
	for _, ins := range loop.Header.Instrs {
		phi, ok := ins.(*ssa.Phi)
		if !ok {
			break
		}
		v := x.freshVal(phiHint(phi), phi.Type())
		fr.vals[phi] = v
		x.assume(pc, x.typeInv(v, st))
	}
	// 4. assume the invariant
	fr.loopHeadSt[loop.Header] = st.clone()
	x.assumeInvariants(fr, loop, st, pc)
}

func (x *Exec) allocTermInProbe(t string) bool {
	return x.probeAllocs != nil && x.probeAllocs[t]
}

// probeLoop runs the loop body once, discarding everything it emits, to learn which heap
// components the body may write and through which references.
func (x *Exec) probeLoop(fr *Frame, loop *Loop, st *State, pc string) map[string]*probeInfo {
	// snapshot
	nLines, nFresh, nObls, nUnsup := len(x.lines), x.nfresh, len(x.obls), len(x.unsupported)
	savedMods := x.probeMods
	savedAllocs := x.probeAllocs
	savedAllocTerms := x.allocTerms
	savedVals := copyValMap(fr.vals)
	savedAddrs := copyAddrMap(fr.addrs)
	savedOutPC := copyStrMap(fr.outPC)
	savedOutSt := copyStMap(fr.outSt)
	savedEdge := copyEdgeMap(fr.edgeCond)
	savedRets := fr.rets
	savedBlock, savedPC, savedSt := fr.curBlock, fr.curPC, fr.curSt
	savedHead := copyStMap(fr.loopHeadSt)
	preTerms := map[string]bool{}
	for t := range x.allocTerms {
		preTerms[t] = true
	}

	x.probing++
	x.probeMods = map[string]*probeInfo{}
	x.allocTerms = map[string]bool{}
	for t := range preTerms {
		x.allocTerms[t] = true
	}
	order := topoOrder(fr.fn)
	x.runBlocks(fr, order, st, pc, loop)
	mods := x.probeMods
	// classify targets: allocated during the probe => fresh inside the loop
	inProbe := map[string]bool{}
	for t := range x.allocTerms {
		if !preTerms[t] {
			inProbe[t] = true
		}
	}
	// names generated during the probe will not exist in the real run (they are re-generated
	// with different counters), so targets that are probe-local and not allocations are unknown.
	for _, pi := range mods {
		for t := range pi.targets {
			if inProbe[t] {
				continue
			}
			if termMentionsFreshAfter(t, nFresh) {
				// a loop-carried slice that only ever grows by append keeps its initial backing
				// array or moves to arrays allocated inside the loop
				if phi, ok := x.probePhis[t]; ok && phi.Block() == loop.Header && appendOnlyPhi(phi, loop) {
					delete(pi.targets, t)
					for k, e := range phi.Edges {
						if !isLatch(loop, phi.Block().Preds[k]) {
							if ev, ok2 := fr.vals[e]; ok2 || isConst(e) {
								if !ok2 {
									ev = x.valueOf(fr, e)
								}
								pi.targets[ev.C[0]] = true
							}
						}
					}
					continue
				}
				pi.whole = true
			}
		}
	}
	x.probing--
	// restore
	x.lines = x.lines[:nLines]
	x.nfresh = nFresh
	x.obls = x.obls[:nObls]
	x.unsupported = x.unsupported[:nUnsup]
	x.probeMods = savedMods
	x.allocTerms = savedAllocTerms
	fr.vals, fr.addrs, fr.outPC, fr.outSt, fr.edgeCond, fr.rets = savedVals, savedAddrs, savedOutPC, savedOutSt, savedEdge, savedRets
	fr.curBlock, fr.curPC, fr.curSt = savedBlock, savedPC, savedSt
	fr.loopHeadSt = savedHead
	// outer probe (if any) must also see these modifications
	if savedMods != nil {
		for name, pi := range mods {
			o := savedMods[name]
			if o == nil {
				o = &probeInfo{targets: map[string]bool{}}
				savedMods[name] = o
			}
			if pi.whole {
				o.whole = true
			}
			for t := range pi.targets {
				if inProbe[t] {
					continue
				}
				o.targets[t] = true
			}
		}
	}
	x.probeAllocs = inProbe
	_ = savedAllocs
	return mods
}

// termMentionsFreshAfter reports whether a term mentions a generated name with counter > n.
func termMentionsFreshAfter(t string, n int) bool {
	for i := 0; i < len(t); i++ {
		if t[i] == '!' {
			j := i + 1
			v := 0
			for j < len(t) && t[j] >= '0' && t[j] <= '9' {
				v = v*10 + int(t[j]-'0')
				j++
			}
			if j > i+1 && v > n {
				return true
			}
		}
	}
	return false
}

func copyValMap(m map[ssa.Value]Val) map[ssa.Value]Val {
	n := make(map[ssa.Value]Val, len(m))
	for k, v := range m {
		n[k] = v
	}
	return n
}
func copyAddrMap(m map[ssa.Value]Addr) map[ssa.Value]Addr {
	n := make(map[ssa.Value]Addr, len(m))
	for k, v := range m {
		n[k] = v
	}
	return n
}
func copyStrMap(m map[*ssa.BasicBlock]string) map[*ssa.BasicBlock]string {
	n := make(map[*ssa.BasicBlock]string, len(m))
	for k, v := range m {
		n[k] = v
	}
	return n
}
func copyStMap(m map[*ssa.BasicBlock]*State) map[*ssa.BasicBlock]*State {
	n := make(map[*ssa.BasicBlock]*State, len(m))
	for k, v := range m {
		n[k] = v
	}
	return n
}
func copyEdgeMap(m map[*ssa.BasicBlock][2]string) map[*ssa.BasicBlock][2]string {
	n := make(map[*ssa.BasicBlock][2]string, len(m))
	for k, v := range m {
		n[k] = v
	}
	return n
}

// loopEnv builds the spec environment for invariants of loop at a given edge/state.
// phiFrom != nil: phi values are taken from that predecessor edge (entry / back edge);
// otherwise the current (havoced) phi values are used.
func (x *Exec) loopEnv(fr *Frame, loop *Loop, phiFrom *ssa.BasicBlock, st *State) *SpecEnv {
	env := x.funcEnv(fr, st)
	env.loop = loop
	env.phiFrom = phiFrom
	return env
}

func (x *Exec) invariantClauses(fr *Frame, loop *Loop) []*Clause {
	if fr.contract == nil {
		return nil
	}
	return fr.contract.Invs[loop.Ordinal]
}

func (x *Exec) autoInvariants(fr *Frame, loop *Loop, env *SpecEnv) []string {
	// for range-over-slice loops: -1 <= rangeindex < len
	var out []string
	for _, ins := range loop.Header.Instrs {
		phi, ok := ins.(*ssa.Phi)
		if !ok {
			break
		}
		if phi.Comment == "rangeindex" {
			v := env.phiValue(phi)
			out = append(out, sx("<=", "(- 1)", v.C[0]))
			// upper bound: find the comparison "t+1 < len" in header
			for _, ins2 := range loop.Header.Instrs {
				if bo, ok := ins2.(*ssa.BinOp); ok && bo.Op == token.LSS {
					if add, ok := bo.X.(*ssa.BinOp); ok && add.X == phi {
						lenV := x.valueOf(fr, bo.Y)
						out = append(out, sx("<", v.C[0], sx("+", lenV.C[0], "0")), sx("<=", "0", lenV.C[0]))
						_ = add
					}
				}
			}
		}
	}
	return out
}

func (x *Exec) checkInvariants(fr *Frame, loop *Loop, from *ssa.BasicBlock, pc string, st *State, kind string) {
	if x.probing > 0 {
		return
	}
	env := x.loopEnv(fr, loop, from, st)
	for _, a := range x.autoInvariants(fr, loop, env) {
		if kind == "inv-pres" {
			// rangeindex upper bound is established by the loop test itself
			x.oblige(fr, kind, fmt.Sprintf("loop%d:auto", loop.Ordinal), x.contractTags(fr), a, pc, "automatic range invariant", a)
		} else {
			x.oblige(fr, kind, fmt.Sprintf("loop%d:auto", loop.Ordinal), x.contractTags(fr), a, pc, "automatic range invariant", a)
		}
	}
	for i, cl := range x.invariantClauses(fr, loop) {
		if !x.clauseActive(fr.contract, cl) {
			continue
		}
		label := cl.Label
		if label == "" {
			label = fmt.Sprintf("%d", i+1)
		}
		g := x.evalBool(env, cl.E)
		x.oblige(fr, kind, fmt.Sprintf("loop%d:%s", loop.Ordinal, label), x.clauseTags(fr.contract, cl), g, pc, "loop invariant", cl.Src)
	}
	if kind == "inv-entry" && fr.contract != nil {
		for i, cl := range fr.contract.Establishes[loop.Ordinal] {
			if !x.clauseActive(fr.contract, cl) {
				continue
			}
			label := cl.Label
			if label == "" {
				label = fmt.Sprintf("e%d", i+1)
			}
			// checked where the loop is entered; not part of the invariant
			saved := len(x.lines)
			g := x.evalBool(env, cl.E)
			x.oblige(fr, "establishes", fmt.Sprintf("loop%d:%s", loop.Ordinal, label), x.clauseTags(fr.contract, cl), g, pc, "state on loop entry", cl.Src)
			// do not keep it as an assumption: it is not an invariant
			if len(x.lines) > saved {
				x.lines = x.lines[:len(x.lines)-1]
			}
		}
	}
}

func (x *Exec) assumeInvariants(fr *Frame, loop *Loop, st *State, pc string) {
	env := x.loopEnv(fr, loop, nil, st)
	for _, a := range x.autoInvariants(fr, loop, env) {
		x.assume(pc, a)
	}
	for _, cl := range x.invariantClauses(fr, loop) {
		if !x.clauseActive(fr.contract, cl) {
			continue
		}
		x.assume(pc, x.evalBool(env, cl.E))
	}
}

func (x *Exec) contractTags(fr *Frame) []string {
	if fr.contract == nil {
		return nil
	}
	return fr.contract.Tags
}

func (x *Exec) clauseTags(c *Contract, cl *Clause) []string {
	if len(cl.Tags) > 0 {
		return cl.Tags
	}
	return c.Tags
}

// clauseActive: a clause participates in the current run if it carries the property's tag
// (or the run is not restricted to one property).
func (x *Exec) clauseActive(c *Contract, cl *Clause) bool {
	// All clauses take part in VC generation (a clause owned by another property is assumed at
	// call sites and proved in that property's run); the property only selects which
	// obligations are reported (obligationInProperty). Scope clauses are the exception: they
	// narrow the input space for their own property only.
	if cl.Kind != "scope" || x.property == "" {
		return true
	}
	tags := x.clauseTags(c, cl)
	if len(tags) == 0 {
		return true
	}
	return hasTag(tags, x.property)
}

func isConst(v ssa.Value) bool { _, ok := v.(*ssa.Const); return ok }

// appendOnlyPhi: every value flowing into the slice-typed phi around the loop is the phi itself,
// a re-slice of it, or append(<such a value>, ...).
func appendOnlyPhi(phi *ssa.Phi, loop *Loop) bool {
	seen := map[ssa.Value]bool{}
	var ok func(v ssa.Value) bool
	ok = func(v ssa.Value) bool {
		if v == phi || seen[v] {
			return true
		}
		seen[v] = true
		switch c := v.(type) {
		case *ssa.Call:
			if b, isB := c.Call.Value.(*ssa.Builtin); isB && b.Name() == "append" {
				return ok(c.Call.Args[0])
			}
		case *ssa.Slice:
			return ok(c.X)
		case *ssa.Phi:
			for _, e := range c.Edges {
				if !ok(e) {
					return false
				}
			}
			return true
		}
		return false
	}
	for k, e := range phi.Edges {
		if isLatch(loop, phi.Block().Preds[k]) {
			if !ok(e) {
				return false
			}
		}
	}
	return true
}
