package main

// Translation of contract clauses into Go source, used only by the replay harness to
// evaluate a clause on concrete inputs against the real code.

import (
	"fmt"
	"go/types"
	"strconv"
	"strings"
)

type goVal struct {
	code  string
	t     types.Type // Go type of code; nil for spec ints (then code is int64-typed) / nil literal
	isNil bool
	isInt bool // code has type int64
}

type goGen struct {
	x       *Exec
	r       *reifier
	fr      *Frame
	why     string
	vars    map[string]goVal
	imports map[string]bool
	depth   int
}

type genErr string

func (g *goGen) failf(f string, a ...any) { panic(genErr(fmt.Sprintf(f, a...))) }

func (g *goGen) clause(e Expr, argNames, resNames []string) (code string, ok bool) {
	defer func() {
		if r := recover(); r != nil {
			if ge, isGe := r.(genErr); isGe {
				g.why = string(ge)
				ok = false
				return
			}
			if se, isSe := r.(specErr); isSe {
				g.why = string(se)
				ok = false
				return
			}
			panic(r)
		}
	}()
	g.vars = map[string]goVal{}
	fn := g.fr.fn
	for k, p := range fn.Params {
		g.vars[p.Name()] = goVal{code: argNames[k], t: p.Type()}
	}
	rt := fn.Signature.Results()
	for k := 0; k < rt.Len(); k++ {
		v := goVal{code: resNames[k], t: rt.At(k).Type()}
		g.vars[fmt.Sprintf("result%d", k)] = v
		if k == 0 {
			g.vars["result"] = v
		}
		if n := rt.At(k).Name(); n != "" && n != "_" {
			g.vars[n] = v
		}
		if k == rt.Len()-1 && isErrorType(rt.At(k).Type()) {
			g.vars["err"] = v
		}
	}
	v := g.gen(e)
	return v.code, true
}

func (g *goGen) asInt(v goVal) string {
	if v.isInt {
		return v.code
	}
	if v.t != nil && isInteger(v.t) {
		return "int64(" + v.code + ")"
	}
	g.failf("integer expected, got %v", v.t)
	return ""
}

func (g *goGen) bind(name string, v goVal) func() {
	old, had := g.vars[name]
	g.vars[name] = v
	return func() {
		if had {
			g.vars[name] = old
		} else {
			delete(g.vars, name)
		}
	}
}

func (g *goGen) typeStr(t types.Type) string { return g.r.typeStr(t) }

func (g *goGen) gen(ex Expr) goVal {
	switch n := ex.(type) {
	case EInt:
		if n.S != "" {
			g.failf("big literal")
		}
		return goVal{code: fmt.Sprintf("int64(%d)", n.V), isInt: true}
	case EBool:
		return goVal{code: strconv.FormatBool(n.V), t: types.Typ[types.Bool]}
	case EStr:
		return goVal{code: strconv.Quote(n.V), t: types.Typ[types.String]}
	case ENil:
		return goVal{code: "nil", isNil: true}
	case EIdent:
		if v, ok := g.vars[n.Name]; ok {
			return v
		}
		if _, ok := dtypeCodes[n.Name]; ok {
			g.r.imports["gorgonia.org/tensor"] = true
			return goVal{code: "tensor." + n.Name, t: g.x.prog.dtypeType}
		}
		if gl := g.x.prog.findGlobal(n.Name, g.fr); gl != nil {
			name := gl.Name()
			if gl.Pkg.Pkg != g.r.pkg {
				g.r.imports[gl.Pkg.Pkg.Path()] = true
				name = gl.Pkg.Pkg.Name() + "." + name
			}
			return goVal{code: name, t: gl.Type().Underlying().(*types.Pointer).Elem()}
		}
		g.failf("unknown identifier %s", n.Name)
	case EOld:
		g.failf("old() cannot be evaluated after the call")
	case EUnary:
		v := g.gen(n.X)
		if n.Op == "!" {
			return goVal{code: "!(" + v.code + ")", t: types.Typ[types.Bool]}
		}
		return goVal{code: "(-" + g.asInt(v) + ")", isInt: true}
	case EBinary:
		return g.genBinary(n)
	case EQuant:
		return g.genQuant(n)
	case EIndex:
		b := g.gen(n.X)
		i := g.gen(n.I)
		switch u := b.t.Underlying().(type) {
		case *types.Slice:
			return goVal{code: fmt.Sprintf("%s[int(%s)]", b.code, g.asInt(i)), t: u.Elem()}
		case *types.Map:
			return goVal{code: fmt.Sprintf("%s[%s]", b.code, i.code), t: u.Elem()}
		}
		g.failf("index on %v", b.t)
	case ESlice:
		b := g.gen(n.X)
		lo, hi := "", ""
		if n.Lo != nil {
			lo = "int(" + g.asInt(g.gen(n.Lo)) + ")"
		}
		if n.Hi != nil {
			hi = "int(" + g.asInt(g.gen(n.Hi)) + ")"
		}
		return goVal{code: fmt.Sprintf("%s[%s:%s]", b.code, lo, hi), t: b.t}
	case EField:
		b := g.gen(n.X)
		t := b.t
		if p, ok := t.Underlying().(*types.Pointer); ok {
			t = p.Elem()
		}
		stt, ok := t.Underlying().(*types.Struct)
		if !ok {
			g.failf("field of non-struct")
		}
		for i := 0; i < stt.NumFields(); i++ {
			if stt.Field(i).Name() == n.F {
				if !stt.Field(i).Exported() && stt.Field(i).Pkg() != g.r.pkg {
					g.failf("unexported field of another package")
				}
				return goVal{code: b.code + "." + n.F, t: stt.Field(i).Type()}
			}
		}
		g.failf("no field %s", n.F)
	case ECall:
		return g.genCall(n)
	}
	g.failf("cannot translate %s", ex)
	return goVal{}
}

func (g *goGen) genBinary(n EBinary) goVal {
	boolT := types.Typ[types.Bool]
	switch n.Op {
	case "&&", "||":
		a, b := g.gen(n.X), g.gen(n.Y)
		return goVal{code: "(" + a.code + " " + n.Op + " " + b.code + ")", t: boolT}
	case "==>":
		a, b := g.gen(n.X), g.gen(n.Y)
		return goVal{code: "(!(" + a.code + ") || (" + b.code + "))", t: boolT}
	case "<==>":
		a, b := g.gen(n.X), g.gen(n.Y)
		return goVal{code: "((" + a.code + ") == (" + b.code + "))", t: boolT}
	case "in":
		k, m := g.gen(n.X), g.gen(n.Y)
		if m.t == nil || !isMap(m.t) {
			g.failf("'in' on non-map")
		}
		return goVal{code: fmt.Sprintf("func() bool { _, ok := %s[%s]; return ok }()", m.code, k.code), t: boolT}
	}
	a, b := g.gen(n.X), g.gen(n.Y)
	switch n.Op {
	case "==", "!=":
		var c string
		switch {
		case a.isNil || b.isNil:
			o := a
			if a.isNil {
				o = b
			}
			c = o.code + " == nil"
		case (a.isInt || (a.t != nil && isInteger(a.t))) && (b.isInt || (b.t != nil && isInteger(b.t))):
			c = g.asInt(a) + " == " + g.asInt(b)
		case a.t != nil && isFloat(a.t):
			g.r.imports["math"] = true
			if layout(a.t)[0].Sort == SF32 {
				c = fmt.Sprintf("math.Float32bits(float32(%s)) == math.Float32bits(float32(%s))", a.code, b.code)
			} else {
				c = fmt.Sprintf("math.Float64bits(float64(%s)) == math.Float64bits(float64(%s))", a.code, b.code)
			}
		case a.t != nil && (isSlice(a.t) || isMap(a.t)):
			g.failf("comparison of slices/maps")
		default:
			c = a.code + " == " + b.code
		}
		if n.Op == "!=" {
			return goVal{code: "!(" + c + ")", t: boolT}
		}
		return goVal{code: "(" + c + ")", t: boolT}
	case "<", "<=", ">", ">=":
		if a.t != nil && isFloat(a.t) {
			return goVal{code: "(" + a.code + " " + n.Op + " " + b.code + ")", t: boolT}
		}
		return goVal{code: "(" + g.asInt(a) + " " + n.Op + " " + g.asInt(b) + ")", t: boolT}
	case "+", "-", "*":
		return goVal{code: "(" + g.asInt(a) + " " + n.Op + " " + g.asInt(b) + ")", isInt: true}
	case "/", "%":
		return goVal{code: "(" + g.asInt(a) + " " + n.Op + " " + g.asInt(b) + ")", isInt: true}
	}
	g.failf("operator %s", n.Op)
	return goVal{}
}

// bounds extracts lo <= v && v < hi from the guard of a quantified formula.
func quantBounds(v string, guard Expr) (lo, hi Expr, hiIncl bool, rest []Expr) {
	var conj []Expr
	var flat func(e Expr)
	flat = func(e Expr) {
		if b, ok := e.(EBinary); ok && b.Op == "&&" {
			flat(b.X)
			flat(b.Y)
			return
		}
		conj = append(conj, e)
	}
	flat(guard)
	isV := func(e Expr) bool { id, ok := e.(EIdent); return ok && id.Name == v }
	for _, c := range conj {
		b, ok := c.(EBinary)
		if ok {
			switch {
			case b.Op == "<=" && isV(b.Y) && lo == nil:
				lo = b.X
				continue
			case b.Op == ">=" && isV(b.X) && lo == nil:
				lo = b.Y
				continue
			case b.Op == "<" && isV(b.X) && hi == nil:
				hi = b.Y
				continue
			case b.Op == "<=" && isV(b.X) && hi == nil:
				hi, hiIncl = b.Y, true
				continue
			case b.Op == ">" && isV(b.Y) && hi == nil:
				hi = b.X
				continue
			}
		}
		rest = append(rest, c)
	}
	return
}

func (g *goGen) genQuant(n EQuant) goVal {
	if len(n.Vars) != 1 {
		// nest
		inner := EQuant{Forall: n.Forall, Vars: n.Vars[1:], Body: n.Body}
		n = EQuant{Forall: n.Forall, Vars: n.Vars[:1], Body: inner}
	}
	v := n.Vars[0]
	if v.Type != "int" && v.Type != "" {
		g.failf("quantifier over %s", v.Type)
	}
	var guard, body Expr
	if n.Forall {
		b, ok := n.Body.(EBinary)
		if !ok || b.Op != "==>" {
			g.failf("forall without a range guard")
		}
		guard, body = b.X, b.Y
	} else {
		guard, body = n.Body, EBool{true}
	}
	lo, hi, incl, rest := quantBounds(v.Name, guard)
	if lo == nil || hi == nil {
		g.failf("quantifier without explicit bounds")
	}
	loC := g.asInt(g.gen(lo))
	hiC := g.asInt(g.gen(hi))
	if incl {
		hiC = "(" + hiC + " + 1)"
	}
	undo := g.bind(v.Name, goVal{code: "q_" + v.Name, isInt: true})
	defer undo()
	var restC []string
	for _, r := range rest {
		restC = append(restC, g.gen(r).code)
	}
	bodyC := g.gen(body).code
	cond := "true"
	if len(restC) > 0 {
		cond = strings.Join(restC, " && ")
	}
	if n.Forall {
		return goVal{code: fmt.Sprintf("func() bool { for q_%s := %s; q_%s < %s && q_%s < %s+100000; q_%s++ { if (%s) && !(%s) { return false } }; return true }()",
			v.Name, loC, v.Name, hiC, v.Name, loC, v.Name, cond, bodyC), t: types.Typ[types.Bool]}
	}
	return goVal{code: fmt.Sprintf("func() bool { for q_%s := %s; q_%s < %s && q_%s < %s+100000; q_%s++ { if (%s) && (%s) { return true } }; return false }()",
		v.Name, loC, v.Name, hiC, v.Name, loC, v.Name, cond, bodyC), t: types.Typ[types.Bool]}
}

func (g *goGen) genCall(n ECall) goVal {
	if sf, ok := g.x.cs.Specs[n.Fn]; ok {
		if g.depth > 16 {
			g.failf("spec recursion")
		}
		var undos []func()
		var args []goVal
		for _, a := range n.Args {
			args = append(args, g.gen(a))
		}
		for k, p := range sf.Params {
			undos = append(undos, g.bind(p.Name, args[k]))
		}
		g.depth++
		v := g.gen(sf.Body)
		g.depth--
		for i := len(undos) - 1; i >= 0; i-- {
			undos[i]()
		}
		return v
	}
	arg := func(k int) goVal { return g.gen(n.Args[k]) }
	tensorOf := func(v goVal) string {
		if v.t != nil && (isTensorIface(v.t) || isDensePtr(v.t)) {
			return v.code
		}
		g.failf("tensor expected")
		return ""
	}
	switch n.Fn {
	case "len":
		return goVal{code: "int64(len(" + arg(0).code + "))", isInt: true}
	case "cap":
		return goVal{code: "int64(cap(" + arg(0).code + "))", isInt: true}
	case "ite":
		c, a, b := arg(0), arg(1), arg(2)
		if a.isInt || (a.t != nil && isInteger(a.t)) {
			return goVal{code: fmt.Sprintf("func() int64 { if %s { return %s }; return %s }()", c.code, g.asInt(a), g.asInt(b)), isInt: true}
		}
		return goVal{code: fmt.Sprintf("func() %s { if %s { return %s }; return %s }()", g.typeStr(a.t), c.code, a.code, b.code), t: a.t}
	case "rank":
		return goVal{code: "int64(len(" + tensorOf(arg(0)) + ".Shape()))", isInt: true}
	case "dim":
		return goVal{code: fmt.Sprintf("int64(%s.Shape()[int(%s)])", tensorOf(arg(0)), g.asInt(arg(1))), isInt: true}
	case "dtype":
		return goVal{code: tensorOf(arg(0)) + ".Dtype()", t: g.x.prog.dtypeType}
	case "shapeof":
		return goVal{code: "[]int(" + tensorOf(arg(0)) + ".Shape())", t: types.NewSlice(types.Typ[types.Int])}
	case "f32frombits":
		g.r.imports["math"] = true
		return goVal{code: "math.Float32frombits(uint32(" + g.asInt(arg(0)) + "))", t: types.Typ[types.Float32]}
	case "f64frombits":
		g.r.imports["math"] = true
		return goVal{code: "math.Float64frombits(uint64(" + g.asInt(arg(0)) + "))", t: types.Typ[types.Float64]}
	case "blen":
		return goVal{code: "int64(" + tensorOf(arg(0)) + ".DataSize())", isInt: true}
	case "zeroed":
		return goVal{code: "false", t: types.Typ[types.Bool]}
	case "telem":
		ts, ok := n.Args[1].(EStr)
		if !ok {
			g.failf("telem type")
		}
		et := g.x.prog.typeByName(ts.V)
		return goVal{code: fmt.Sprintf("%s.Data().([]%s)[int(%s)]", tensorOf(arg(0)), ts.V, g.asInt(arg(2))), t: et}
	case "fresh", "wf", "isdense", "allocated":
		// not observable on the concrete run; treat as satisfied
		return goVal{code: "true", t: types.Typ[types.Bool]}
	case "nelems":
		return goVal{code: fmt.Sprintf("func() int64 { n := int64(1); for _, d := range %s { n *= int64(d) }; return n }()", arg(0).code), isInt: true}
	}
	g.failf("function %s has no Go twin", n.Fn)
	return goVal{}
}
