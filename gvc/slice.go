package main

// Cone-of-influence slicing of queries. Dropping hypotheses is sound for a proof (unsat of a
// subset implies unsat of the whole); a non-unsat answer on the slice falls back to the full query.

import (
	"encoding/json"
	"os"
	"path/filepath"
	"regexp"
	"strings"
	"sync"
)

var symRe = regexp.MustCompile(`[A-Za-z_$][A-Za-z0-9_$.!@]*`)
var defRe = regexp.MustCompile(`^\(assert \(= ([A-Za-z_$][A-Za-z0-9_$.!@]*) `)

var smtKeywords = map[string]bool{"assert": true, "and": true, "or": true, "not": true, "ite": true, "select": true, "store": true,
	"forall": true, "exists": true, "Int": true, "Bool": true, "Array": true, "true": true, "false": true, "div": true, "mod": true,
	"let": true, "as": true, "const": true, "distinct": true, "_": true, "pattern": true}

func lineSymbols(l string) []string {
	var out []string
	for _, s := range symRe.FindAllString(l, -1) {
		if smtKeywords[s] {
			continue
		}
		out = append(out, s)
	}
	return out
}

func isHub(s string) bool { return strings.HasPrefix(s, "pc_") }

// sliceLines returns the subset of assertion lines relevant to the given seed text.
func sliceLines(lines []string, seed string, maxDist int) []string {
	type info struct {
		syms   []string
		def    string
		isDecl bool
	}
	infos := make([]info, len(lines))
	// a symbol counts as "defined" only by its first defining equation
	defined := map[string]bool{}
	for i, l := range lines {
		if strings.HasPrefix(l, "(declare-") {
			infos[i].isDecl = true
			continue
		}
		infos[i].syms = lineSymbols(l)
		if m := defRe.FindStringSubmatch(l); m != nil && strings.Contains(m[1], "!") && !defined[m[1]] {
			infos[i].def = m[1]
			defined[m[1]] = true
		}
	}
	// dist[s]: number of non-definitional facts between the goal and symbol s
	dist := map[string]int{}
	for _, s := range lineSymbols(seed) {
		dist[s] = 0
	}
	included := make([]bool, len(lines))
	for changed := true; changed; {
		changed = false
		for i := range lines {
			if included[i] || infos[i].isDecl {
				continue
			}
			take := false
			d := 0
			if infos[i].def != "" {
				dd, ok := dist[infos[i].def]
				take, d = ok, dd
			} else {
				best := -1
				for _, s := range infos[i].syms {
					if dd, ok := dist[s]; ok && !isHub(s) && (best < 0 || dd < best) {
						best = dd
					}
				}
				if best >= 0 && (maxDist < 0 || best < maxDist) {
					take, d = true, best+1
				}
			}
			if take {
				included[i] = true
				changed = true
				for _, s := range infos[i].syms {
					if old, ok := dist[s]; !ok || d < old {
						dist[s] = d
					}
				}
			}
		}
	}
	var out []string
	for i, l := range lines {
		if infos[i].isDecl || included[i] {
			out = append(out, l)
		}
	}
	return out
}

func (x *Exec) slicedQuery(o *Obligation, maxDist int, inst bool, plainRounds ...int) string {
	lines := x.lines[:o.Prefix]
	if maxDist != fullQuery {
		lines = sliceLines(lines, o.PC+" "+o.Goal, maxDist)
	}
	return x.assemble(lines, o, false, inst, plainRounds...)
}

const fullQuery = -2

// discharge runs the ladder of query variants (smaller slices first; with and without ground
// pre-instantiation). Every variant only drops or instantiates hypotheses, so unsat of any
// variant proves the obligation.
// variantQuery builds the query of one rung of the ladder. Modes: 0 plain; 1 with ground
// pre-instantiation; 2 plain without the lemma families; 3 plain with single-phase, loosely
// matched lemma instances. Every variant only drops hypotheses or adds consequences of them, so
// unsat of any one proves the obligation.
func variantQuery(o *Obligation, k, mode int) string {
	switch mode {
	case 1:
		return o.exec.slicedQuery(o, k, true)
	case 2:
		return o.exec.slicedQuery(o, k, false, 0)
	case 3:
		return o.exec.slicedQuery(o, k, false, -1)
	}
	return o.exec.slicedQuery(o, k, false)
}

func variantLabel(k, mode int) string {
	s := " [full"
	if k != fullQuery {
		s = " [slice " + itoa(k)
	}
	switch mode {
	case 1:
		s += "+inst"
	case 2:
		s += " nofam"
	case 3:
		s += " legacy"
	}
	return s + "]"
}

func discharge(o *Obligation, timeout int, cross bool) SolverResult {
	var spent float64
	seen := map[string]bool{}
	var last SolverResult
	// the proof plan records which rung proved this obligation last time: try it first. The plan
	// only orders the attempts; the answer always comes from a solver run on the current query.
	if pl, ok := planFor(o.Name); ok {
		q := variantQuery(o, pl.K, pl.Mode)
		seen[q] = true
		r := solve(q, timeout, cross, false)
		if r.Status == "unsat" {
			r.Solver += variantLabel(pl.K, pl.Mode) + " (planned)"
			r.K, r.Mode, r.Ladder = pl.K, pl.Mode, true
			return r
		}
		spent += r.Seconds
	}
	for _, k := range []int{1, 2, 4, -1, fullQuery} {
		// both variants of one slice level race each other
		type variant struct {
			q    string
			mode int
		}
		var vs []variant
		for mode := 0; mode < 4; mode++ {
			q := variantQuery(o, k, mode)
			if seen[q] {
				continue
			}
			seen[q] = true
			if len(q) > 6<<20 {
				last = SolverResult{Status: "unknown", Solver: "none", Output: "query too large"}
				continue
			}
			vs = append(vs, variant{q, mode})
		}
		if len(vs) == 0 {
			continue
		}
		ch := make(chan struct {
			r    SolverResult
			mode int
		}, len(vs))
		for _, v := range vs {
			v := v
			go func() {
				r := solve(v.q, timeout, cross, false)
				ch <- struct {
					r    SolverResult
					mode int
				}{r, v.mode}
			}()
		}
		var levelMax float64
		satPlain := false
		var got *SolverResult
		for range vs {
			x := <-ch
			if x.r.Seconds > levelMax {
				levelMax = x.r.Seconds
			}
			if x.r.Status == "unsat" && got == nil {
				r := x.r
				r.Solver += variantLabel(k, x.mode)
				r.K, r.Mode, r.Ladder = k, x.mode, true
				r.Seconds = spent + x.r.Seconds
				got = &r
				// (in cross-check mode solve() has already asked the other solvers about this query)
				break
			}
			last = x.r
			if x.r.Status == "sat" && x.mode == 0 {
				satPlain = true
			}
		}
		if got != nil {
			return *got
		}
		spent += levelMax
		if satPlain && k == -1 {
			// the unbounded cone of influence is satisfiable: hypotheses outside the cone cannot help
			last.Status = "sat"
			last.Seconds = spent
			return last
		}
	}
	// every rung ran out of time (not: found a counter-model): the machine may simply be busy. The
	// rung that proved this obligation when the plan was recorded gets one more attempt with three
	// times the budget before the obligation is given up.
	if pl, ok := planFor(o.Name); ok && last.Status != "sat" {
		r := solve(variantQuery(o, pl.K, pl.Mode), 3*timeout, false, false)
		if r.Status == "unsat" {
			r.Solver += variantLabel(pl.K, pl.Mode) + " (planned, second attempt)"
			r.K, r.Mode, r.Ladder = pl.K, pl.Mode, true
			r.Seconds += spent
			return r
		}
		spent += r.Seconds
	}
	last.Seconds = spent
	return last
}

func itoa(k int) string {
	if k < 0 {
		return "inf"
	}
	return string(rune('0' + k))
}

// ---------------------------------------------------------------------------------------
// proof plan: which rung of the ladder proved an obligation (contracts/proof_plan.json, written by
// `gvc check -record`). Purely an ordering hint.

type planEntry struct {
	K    int `json:"k"`
	Mode int `json:"mode"`
}

var (
	planMu     sync.Mutex
	planLoaded map[string]planEntry
	planPath   string
)

func loadPlan(verifDir string) {
	planPath = filepath.Join(verifDir, "contracts", "proof_plan.json")
	planLoaded = map[string]planEntry{}
	if b, err := os.ReadFile(planPath); err == nil {
		json.Unmarshal(b, &planLoaded)
	}
}

func planFor(name string) (planEntry, bool) {
	planMu.Lock()
	defer planMu.Unlock()
	e, ok := planLoaded[name]
	return e, ok
}

// recordPlan merges the rungs that proved the given obligations into the plan file.
func recordPlan(obls []*Obligation) error {
	planMu.Lock()
	defer planMu.Unlock()
	if planLoaded == nil {
		planLoaded = map[string]planEntry{}
	}
	for _, o := range obls {
		if o.Result.Status == "unsat" && o.Result.Ladder {
			planLoaded[o.Name] = planEntry{K: o.Result.K, Mode: o.Result.Mode}
		}
	}
	b, err := json.MarshalIndent(planLoaded, "", " ")
	if err != nil {
		return err
	}
	return os.WriteFile(planPath, b, 0o644)
}
