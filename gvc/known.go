package main

// Known findings (committed file, never written at run time) and replay files.

import (
	"encoding/json"
	"fmt"
	"os"
	"path/filepath"
	"strings"
)

type KnownFinding struct {
	Property   string `json:"property"`
	Obligation string `json:"obligation"` // exact obligation name (or prefix ending in *)
	Status     string `json:"status"`     // open | fixed
	What       string `json:"what"`
	Commit     string `json:"commit,omitempty"`
	Witness    string `json:"witness,omitempty"` // failing input class, human readable
	Demo       string `json:"demo,omitempty"`    // path of a demonstration test under /verif
}

type KnownFindings struct {
	Findings []KnownFinding `json:"findings"`
}

func loadKnownFindings(path string) (*KnownFindings, error) {
	kf := &KnownFindings{}
	b, err := os.ReadFile(path)
	if err != nil {
		if os.IsNotExist(err) {
			return kf, nil
		}
		return nil, err
	}
	if err := json.Unmarshal(b, kf); err != nil {
		return nil, fmt.Errorf("%s: %v", path, err)
	}
	return kf, nil
}

func nameMatches(pat, name string) bool {
	if strings.HasSuffix(pat, "*") {
		return strings.HasPrefix(name, strings.TrimSuffix(pat, "*"))
	}
	return pat == name
}

func (k *KnownFindings) match(property, obligation string) *KnownFinding {
	if k == nil {
		return nil
	}
	for i := range k.Findings {
		f := &k.Findings[i]
		if f.Status == "open" && (f.Property == property || f.Property == "*") && nameMatches(f.Obligation, obligation) {
			return f
		}
	}
	return nil
}

// hasOpen: is there an open finding for this obligation under any property?
func (k *KnownFindings) hasOpen(obligation string) bool {
	if k == nil {
		return false
	}
	for i := range k.Findings {
		f := &k.Findings[i]
		if f.Status == "open" && nameMatches(f.Obligation, obligation) {
			return true
		}
	}
	return false
}

// ---------------------------------------------------------------------------------------

type ReplayFile struct {
	Property     string            `json:"property"`
	Obligation   string            `json:"obligation"`
	Kind         string            `json:"kind"`
	Function     string            `json:"function"`
	Clause       string            `json:"clause"`
	Description  string            `json:"description"`
	Position     string            `json:"position"`
	SolverStatus string            `json:"solver_status"`
	SolverOutput string            `json:"solver_output"`
	Model        map[string]string `json:"model,omitempty"`
	ReplayTest   string            `json:"replay_test,omitempty"`
	ReplayPkg    string            `json:"replay_pkg,omitempty"`
	ReplayResult string            `json:"replay_result"`
	Confirmed    bool              `json:"confirmed"`
}

var replayAttempts int

func writeReplay(prog *Program, res *CheckResult, o *Obligation, dir string) (string, bool) {
	os.MkdirAll(dir, 0o755)
	rf := ReplayFile{Property: res.Property, Obligation: o.Name, Kind: o.Kind, Function: o.Func, Clause: o.Src,
		Description: o.Desc, Position: fmt.Sprintf("%s:%d", relPath(o.Pos.Filename), o.Pos.Line),
		SolverStatus: o.Result.Status, SolverOutput: truncate(o.Result.Output, 4000)}
	confirmed := false
	replayAttempts++
	if o.Kind == "unsupported" {
		rf.ReplayResult = "no input to search for: the function uses a construct or callee the engine has no contract or model for"
	} else if replayAttempts > 16 {
		rf.ReplayResult = "counterexample search skipped: more than 16 failed obligations in this run"
	} else if o.exec != nil {
		confirmed = tryReplay(prog, o, &rf)
	} else {
		rf.ReplayResult = "no entry-state model: obligation is a lemma or machinery check"
	}
	rf.Confirmed = confirmed
	p := filepath.Join(dir, sanitize(o.Name)+".json")
	b, _ := json.MarshalIndent(rf, "", " ")
	os.WriteFile(p, b, 0o644)
	return p, confirmed
}

func cmdReplay(args []string) int {
	if len(args) < 1 {
		fmt.Println("usage: gvc replay <file>")
		return 2
	}
	b, err := os.ReadFile(args[0])
	if err != nil {
		fmt.Println(err)
		return 2
	}
	var rf ReplayFile
	if err := json.Unmarshal(b, &rf); err != nil {
		fmt.Println(err)
		return 2
	}
	fmt.Printf("obligation: %s\nclause: %s\nat: %s\nsolver: %s\n", rf.Obligation, rf.Clause, rf.Position, rf.SolverStatus)
	if rf.ReplayTest == "" {
		fmt.Println("no replayable input was found for this obligation (no-failing-input-found); solver output:")
		fmt.Println(rf.SolverOutput)
		return 1
	}
	out, failed := runReplayTest(envOr("GVC_REPO", "/repo"), rf.ReplayPkg, rf.ReplayTest)
	fmt.Println(out)
	if failed {
		fmt.Println("replay: the real code violates the clause on this input")
		return 1
	}
	fmt.Println("replay: the real code does not violate the clause on this input")
	return 0
}
