package main

// Closed-world devirtualisation of the small, loop-free ops.Operator getters
// (GetMinInputs, GetMaxInputs, GetInputTypeConstraints, String): an interface call is executed
// as a case split over every implementation in the module, running the real method bodies.
// The same mechanism backs the spec functions opmin / opmax / ncons / allowed, so that the
// contracts talk about what the real getters return in the state where they are used.

import (
	"fmt"
	"go/types"
	"sort"
	"strings"

	"golang.org/x/tools/go/ssa"
)

type opImpl struct {
	ptr types.Type // *T
	fns map[string]*ssa.Function
}

var devirtMethods = map[string]bool{"GetMinInputs": true, "GetMaxInputs": true, "GetInputTypeConstraints": true, "String": true}

func (p *Program) operatorIface() *types.Interface {
	sp := p.pkgs["ops"]
	if sp == nil {
		return nil
	}
	o := sp.Pkg.Scope().Lookup("Operator")
	if o == nil {
		return nil
	}
	it, _ := o.Type().Underlying().(*types.Interface)
	return it
}

func (p *Program) operatorImpls() []opImpl {
	if p.opImpls != nil {
		return p.opImpls
	}
	it := p.operatorIface()
	if it == nil {
		return nil
	}
	var out []opImpl
	for _, sp := range p.allPkgs {
		names := sp.Pkg.Scope().Names()
		sort.Strings(names)
		for _, n := range names {
			tn, ok := sp.Pkg.Scope().Lookup(n).(*types.TypeName)
			if !ok || tn.IsAlias() {
				continue
			}
			if _, isIface := tn.Type().Underlying().(*types.Interface); isIface {
				continue
			}
			pt := types.NewPointer(tn.Type())
			if !types.Implements(pt, it) {
				continue
			}
			impl := opImpl{ptr: pt, fns: map[string]*ssa.Function{}}
			ms := p.prog.MethodSets.MethodSet(pt)
			for i := 0; i < ms.Len(); i++ {
				if f := p.prog.MethodValue(ms.At(i)); f != nil {
					impl.fns[ms.At(i).Obj().Name()] = f
				}
			}
			out = append(out, impl)
		}
	}
	p.opImpls = out
	return out
}

func isOperatorIface(t types.Type) bool { return isNamed(t, "gonnx/ops", "Operator") }

// getterPure: syntactic purity of a getter body (no calls, stores only into objects it allocates).
func getterPure(fn *ssa.Function) bool {
	if fn == nil || fn.Blocks == nil || hasLoops(fn) {
		return false
	}
	for _, b := range fn.Blocks {
		for _, ins := range b.Instrs {
			switch i := ins.(type) {
			case *ssa.Call:
				return false
			case *ssa.Store:
				root := i.Addr
				for {
					switch a := root.(type) {
					case *ssa.IndexAddr:
						root = a.X
						continue
					case *ssa.FieldAddr:
						root = a.X
						continue
					}
					break
				}
				if _, ok := root.(*ssa.Alloc); !ok {
					return false
				}
			case *ssa.MapUpdate, *ssa.Go, *ssa.Defer, *ssa.Send, *ssa.Panic:
				return false
			}
		}
	}
	return true
}

// getterStamp identifies the versions of the heap components a getter may read (receiver
// fields of operator structs and dtype tables): same stamp => same getter results.
func (x *Exec) getterStamp(st *State) string {
	var parts []string
	for _, c := range x.compOrder {
		if strings.HasPrefix(c, "F$opset13_") {
			if sym, ok := st.H[c]; ok {
				parts = append(parts, c+"="+sym)
			}
		}
	}
	sort.Strings(parts)
	key := strings.Join(parts, ",")
	if x.stamps == nil {
		x.stamps = map[string]int{}
	}
	id, ok := x.stamps[key]
	if !ok {
		id = len(x.stamps) + 1
		x.stamps[key] = id
	}
	return fmt.Sprint(id)
}

func (x *Exec) getterUF(method string) string {
	switch method {
	case "GetMinInputs":
		x.uninterp("opmin_uf", []string{SInt, SInt, SInt}, SInt)
		return "opmin_uf"
	case "GetMaxInputs":
		x.uninterp("opmax_uf", []string{SInt, SInt, SInt}, SInt)
		return "opmax_uf"
	case "ncons":
		x.uninterp("ncons_uf", []string{SInt, SInt, SInt}, SInt)
		return "ncons_uf"
	case "allowed":
		x.uninterp("allowed_uf", []string{SInt, SInt, SInt, SInt, SInt}, SBool)
		return "allowed_uf"
	}
	return ""
}

func (x *Exec) implFor(tag string) *opImpl {
	lit, ok := litInt(tag)
	if !ok {
		return nil
	}
	impls := x.prog.operatorImpls()
	for k := range impls {
		if x.typeTag(impls[k].ptr) == fmt.Sprint(lit) {
			return &impls[k]
		}
	}
	return nil
}

// getterValue evaluates a getter on an operator value in state st. With a known dynamic type the
// real body is executed (on a scratch copy of the state when scratch is set) and linked to the
// uninterpreted summary; with a symbolic type only the summary is available.
// For GetInputTypeConstraints it returns the slice value and the state in which to read it.
func (x *Exec) getterValue(fr *Frame, st *State, op Val, method string) (Val, *State, bool) {
	stamp := x.getterStamp(st)
	key := method + "|" + op.tag() + "|" + op.pay() + "|" + stamp
	if x.devirtCache == nil {
		x.devirtCache = map[string]devirtCacheEntry{}
	}
	if ce, ok := x.devirtCache[key]; ok && x.probing == 0 {
		return ce.v, ce.st, true
	}
	im := x.implFor(op.tag())
	var v Val
	var rst *State
	if im != nil {
		fn := im.fns[method]
		if !getterPure(fn) {
			return Val{}, nil, false
		}
		savedPC, savedSt, savedPos := fr.curPC, fr.curSt, x.curPosFn
		x.quiet++
		fr.curPC = "true"
		fr.curSt = st.clone()
		self := Val{T: im.ptr, C: []string{op.pay()}}
		v = x.inlineCall(fr, fn, []Val{self}, nil)
		x.inlined[funcKey(fn)] = true
		rst = fr.curSt
		x.quiet--
		fr.curPC, fr.curSt, x.curPosFn = savedPC, savedSt, savedPos
		// link to the summaries
		switch method {
		case "GetMinInputs", "GetMaxInputs":
			x.emit(sx("assert", eq(sx(x.getterUF(method), op.tag(), op.pay(), stamp), v.C[0])))
		case "GetInputTypeConstraints":
			x.emit(sx("assert", eq(sx(x.getterUF("ncons"), op.tag(), op.pay(), stamp), v.slen())))
			x.emit(sx("assert", x.consLink(rst, v, op, stamp)))
		}
	} else {
		rst = st
		switch method {
		case "GetMinInputs", "GetMaxInputs":
			v = Val{T: types.Typ[types.Int], C: []string{sx(x.getterUF(method), op.tag(), op.pay(), stamp)}}
		case "GetInputTypeConstraints":
			// a fresh table whose content is described by the summaries
			rst = st.clone()
			t := x.prog.consType()
			ref := x.newRef(rst, "cons")
			n := sx(x.getterUF("ncons"), op.tag(), op.pay(), stamp)
			x.emit(sx("assert", sx(">=", n, "0")))
			v = Val{T: t, C: []string{ref, "0", n, n}}
			// the inner tables are further objects allocated by the callee: everything at or above
			// the old allocation counter may have been written, nothing below it
			oldA := x.alloc(st)
			newA := x.fresh("alloc_after_cons", SInt)
			rst.H["$alloc"] = newA
			x.emit(sx("assert", sx(">", newA, ref)))
			outerT := t.Underlying().(*types.Slice)
			innerT := outerT.Elem().Underlying().(*types.Slice)
			var comps []string
			for k := range layout(outerT.Elem()) {
				comps = append(comps, fmt.Sprintf("E$%s$%d", typeKey(outerT.Elem()), k))
			}
			comps = append(comps, fmt.Sprintf("E$%s$0", typeKey(innerT.Elem())))
			for _, cn := range comps {
				x.comp(rst, cn, elemSort(SInt))
				oldS, newS := x.havocComp(rst, cn, elemSort(SInt))
				x.emit(sx("assert", fmt.Sprintf("(forall ((r Int)) (! (=> (< r %s) (= (select %s r) (select %s r))) :pattern ((select %s r))))", oldA, newS, oldS, newS)))
			}
			x.emit(sx("assert", x.consLink(rst, v, op, stamp)))
		case "String":
			v = x.freshVal("opname", types.Typ[types.String])
		default:
			return Val{}, nil, false
		}
	}
	if x.probing == 0 {
		x.devirtCache[key] = devirtCacheEntry{v: v, st: rst}
	}
	return v, rst, true
}

func (p *Program) consType() types.Type {
	return types.NewSlice(types.NewSlice(p.dtypeType))
}

// consLink: forall i, d: (exists j: cons[i][j] == d) <=> allowed_uf(op, stamp, i, d), for 0 <= i < len(cons).
func (x *Exec) consLink(st *State, cons Val, op Val, stamp string) string {
	outer := cons.T.Underlying().(*types.Slice)
	innerT := outer.Elem().Underlying().(*types.Slice)
	uf := x.getterUF("allowed")
	inner := x.load(st, Addr{Prefix: "E$" + typeKey(outer.Elem()), Ref: cons.base(), Idx: add(cons.off(), "i"), T: outer.Elem()})
	h := x.comp(st, fmt.Sprintf("E$%s$0", typeKey(innerT.Elem())), elemSort(SInt))
	ex := fmt.Sprintf("(exists ((j Int)) (and (<= 0 j) (< j %s) (= (select (select %s %s) (+ %s j)) d)))", inner.slen(), h, inner.base(), inner.off())
	return fmt.Sprintf("(forall ((i Int) (d Int)) (! (=> (and (<= 0 i) (< i %s)) (= %s (%s %s %s %s i d))) :pattern ((%s %s %s %s i d))))",
		cons.slen(), ex, uf, op.tag(), op.pay(), stamp, uf, op.tag(), op.pay(), stamp)
}

// devirtCall: interface call of a getter from code.
func (x *Exec) devirtCall(fr *Frame, recv Val, method string, args []Val, quiet bool) (Val, bool) {
	st := fr.curSt
	if method == "GetInputTypeConstraints" {
		// the table is allocated by the callee: objects it creates are fresh for the caller
		v, rst, ok := x.getterValue(fr, st, recv, method)
		if !ok {
			return Val{}, false
		}
		// adopt the allocations of the getter into the program state
		for k, sym := range rst.H {
			st.H[k] = sym
		}
		if !quiet && x.implFor(recv.tag()) == nil {
			x.closedWorld(fr, recv)
		}
		return v, true
	}
	v, _, ok := x.getterValue(fr, st, recv, method)
	if ok && !quiet && x.implFor(recv.tag()) == nil {
		x.closedWorld(fr, recv)
	}
	return v, ok
}

func (x *Exec) closedWorld(fr *Frame, recv Val) {
	var alts []string
	for _, im := range x.prog.operatorImpls() {
		alts = append(alts, eq(recv.tag(), x.typeTag(im.ptr)))
	}
	x.oblige(fr, "nopanic", "closed-world-operator", x.contractTags(fr), or(alts...), fr.curPC,
		"dynamic type of the ops.Operator value is not an operator of the module (closed-world assumption)", "")
}

type devirtCacheEntry struct {
	v  Val
	st *State
}

func (e *SpecEnv) specDevirt(op Val, method string) (Val, *State) {
	v, st, ok := e.x.getterValue(e.fr, e.st, op, method)
	if !ok {
		e.fail("cannot evaluate %s on this operator value", method)
	}
	return v, st
}

func registerOperatorBuiltins() {
	specBuiltins["opmin"] = func(e *SpecEnv, n ECall) Val {
		v, _ := e.specDevirt(e.eval(n.Args[0]), "GetMinInputs")
		return specInt(v.C[0])
	}
	specBuiltins["opmax"] = func(e *SpecEnv, n ECall) Val {
		v, _ := e.specDevirt(e.eval(n.Args[0]), "GetMaxInputs")
		return specInt(v.C[0])
	}
	specBuiltins["ncons"] = func(e *SpecEnv, n ECall) Val {
		v, _ := e.specDevirt(e.eval(n.Args[0]), "GetInputTypeConstraints")
		return specInt(v.slen())
	}
	// allowed(op, i, d): dtype d occurs in op.GetInputTypeConstraints()[i]
	specBuiltins["allowed"] = func(e *SpecEnv, n ECall) Val {
		x := e.x
		op := e.eval(n.Args[0])
		// make sure the table (and its link to the summary) exists for this state
		e.specDevirt(op, "GetInputTypeConstraints")
		i := e.eval(n.Args[1]).C[0]
		d := e.eval(n.Args[2]).C[0]
		return boolVal(sx(x.getterUF("allowed"), op.tag(), op.pay(), x.getterStamp(e.st), i, d))
	}
	specBuiltins["asop"] = func(e *SpecEnv, n ECall) Val {
		v := e.eval(n.Args[0])
		if isIface(v.T) {
			return v
		}
		it := e.x.prog.pkgs["ops"].Pkg.Scope().Lookup("Operator").Type()
		return Val{T: it, C: []string{e.x.typeTag(v.T), v.C[0]}}
	}
	specBuiltins["isoperator"] = func(e *SpecEnv, n ECall) Val {
		v := e.eval(n.Args[0])
		var alts []string
		for _, im := range e.x.prog.operatorImpls() {
			alts = append(alts, eq(v.tag(), e.x.typeTag(im.ptr)))
		}
		return boolVal(and(or(alts...), not(eq(v.pay(), "0"))))
	}
	specBuiltins["unshared"] = func(e *SpecEnv, n ECall) Val {
		// unshared(op): every slice, pointer, map and interface field of the operator object is nil or
		// was allocated during this call (its attribute state aliases nothing that existed before)
		v := e.eval(n.Args[0])
		x := e.x
		freshOrNil := func(r string) string {
			return or(eq(r, "0"), and(sx(">=", r, e.allocOld), sx("<", r, x.alloc(e.st))))
		}
		var cases []string
		for _, im := range x.prog.operatorImpls() {
			pt, ok := im.ptr.Underlying().(*types.Pointer)
			if !ok {
				continue
			}
			st, ok := pt.Elem().Underlying().(*types.Struct)
			if !ok {
				continue
			}
			var facts []string
			for k := 0; k < st.NumFields(); k++ {
				ft := st.Field(k).Type()
				lo, _ := fieldRange(st, k)
				fv := x.load(e.st, Addr{Prefix: "F$" + typeKey(pt.Elem()), Lo: lo, Ref: v.pay(), T: ft})
				switch u := ft.Underlying().(type) {
				case *types.Slice:
					facts = append(facts, freshOrNil(fv.base()))
				case *types.Pointer, *types.Map:
					facts = append(facts, freshOrNil(fv.C[0]))
				case *types.Interface:
					facts = append(facts, freshOrNil(fv.pay()))
				default:
					_ = u
				}
			}
			if len(facts) > 0 {
				cases = append(cases, implies(eq(v.tag(), x.typeTag(im.ptr)), and(facts...)))
			}
		}
		return boolVal(and(cases...))
	}
	specBuiltins["funcid"] = func(e *SpecEnv, n ECall) Val {
		s, ok := n.Args[0].(EStr)
		if !ok {
			e.fail("funcid needs a string literal")
		}
		fns := e.x.prog.findFunc(s.V)
		if len(fns) != 1 {
			e.fail("funcid: cannot resolve %q", s.V)
		}
		return specInt(e.x.funcID(fns[0]))
	}
	specBuiltins["errIs"] = func(e *SpecEnv, n ECall) Val {
		a := e.eval(n.Args[0])
		b := e.eval(n.Args[1])
		x := e.x
		wt := x.ghostGet(e.st, "err$wtag", a.pay())
		wp := x.ghostGet(e.st, "err$wpay", a.pay())
		direct := and(eq(a.tag(), b.tag()), eq(a.pay(), b.pay()))
		wrapped := and(eq(a.tag(), x.typeTagName("$dyn_error")), eq(wt, b.tag()), eq(wp, b.pay()))
		return boolVal(and(not(eq(a.tag(), "0")), or(direct, wrapped)))
	}
}
