package main

// Calls: builtins, intrinsics (trusted dependency models), contracts, inlining.

import (
	"sync"
	"fmt"
	"go/types"
	"math/big"
	"path"
	"strings"

	"golang.org/x/tools/go/ssa"
)

const maxInlineDepth = 6

func parseBig(s string) (*big.Int, bool) {
	s = strings.TrimSpace(s)
	neg := false
	if strings.HasPrefix(s, "(- ") {
		neg = true
		s = s[3 : len(s)-1]
	}
	n, ok := new(big.Int).SetString(s, 10)
	if !ok {
		return big.NewInt(0), false
	}
	if neg {
		n.Neg(n)
	}
	return n, true
}

// funcKey is the name under which contracts refer to a function: pkgname.Func,
// pkgname.(*T).Method or pkgname.(T).Method; generic instances map to their origin.
func funcKey(fn *ssa.Function) string {
	if o := fn.Origin(); o != nil {
		fn = o
	}
	pkg := ""
	if fn.Pkg != nil {
		pkg = fn.Pkg.Pkg.Name()
	} else if fn.Object() != nil && fn.Object().Pkg() != nil {
		pkg = fn.Object().Pkg().Name()
	}
	if recv := fn.Signature.Recv(); recv != nil {
		rt := recv.Type()
		star := ""
		if p, ok := rt.(*types.Pointer); ok {
			star = "*"
			rt = p.Elem()
		}
		name := ""
		if n, ok := rt.(*types.Named); ok {
			name = n.Obj().Name()
			if n.Obj().Pkg() != nil {
				pkg = n.Obj().Pkg().Name()
			}
		} else {
			name = rt.String()
		}
		return fmt.Sprintf("%s.(%s%s).%s", pkg, star, name, fn.Name())
	}
	if fn.Parent() != nil {
		// anonymous functions are already named Parent$N by go/ssa
		return pkgNameOf(fn.Parent()) + "." + fn.Name()
	}
	return pkg + "." + fn.Name()
}

// matchKey matches a function key against a pattern. "(*T)" is a literal pointer receiver,
// "(*)" any pointer receiver; every other * is a wildcard.
func matchKey(pat, key string) bool {
	if pat == key {
		return true
	}
	p := strings.ReplaceAll(pat, "(*).", "(\\x00).")
	p = strings.ReplaceAll(p, "(*", "(\\*")
	p = strings.ReplaceAll(p, "(\\x00).", "(\\**).")
	ok, _ := path.Match(p, key)
	return ok
}

func pkgNameOf(fn *ssa.Function) string {
	for fn.Parent() != nil {
		fn = fn.Parent()
	}
	if o := fn.Origin(); o != nil {
		fn = o
	}
	if fn.Pkg != nil {
		return fn.Pkg.Pkg.Name()
	}
	if fn.Object() != nil && fn.Object().Pkg() != nil {
		return fn.Object().Pkg().Name()
	}
	return ""
}

func (x *Exec) contractFor(fn *ssa.Function) *Contract {
	key := funcKey(fn)
	if c, ok := x.cs.ByTarget[key]; ok {
		return c
	}
	for _, f := range x.cs.Families {
		if matchKey(f.Family, key) {
			return f
		}
	}
	return nil
}

func (x *Exec) inModule(fn *ssa.Function) bool {
	if o := fn.Origin(); o != nil {
		fn = o
	}
	var p *types.Package
	if fn.Pkg != nil {
		p = fn.Pkg.Pkg
	} else if fn.Object() != nil {
		p = fn.Object().Pkg()
	} else if fn.Parent() != nil {
		return x.inModule(fn.Parent())
	}
	return p != nil && strings.HasPrefix(p.Path(), x.prog.modulePath)
}

func hasLoops(fn *ssa.Function) bool {
	for _, b := range fn.Blocks {
		for _, s := range b.Succs {
			if s.Dominates(b) {
				return true
			}
		}
	}
	return false
}

// beforeHints checks and then assumes the proof hints attached to this call site.
func (x *Exec) beforeHints(fr *Frame, i *ssa.Call) {
	if !fr.top || fr.contract == nil || len(fr.contract.Before) == 0 || x.probing > 0 {
		return
	}
	common := i.Common()
	name := ""
	switch {
	case common.IsInvoke():
		name = common.Method.Name()
	default:
		switch c := common.Value.(type) {
		case *ssa.Function:
			name = c.Name()
			if o := c.Origin(); o != nil {
				name = o.Name()
			}
		case *ssa.Builtin:
			name = c.Name()
		}
	}
	if name == "" {
		return
	}
	if fr.callCount == nil {
		fr.callCount = map[string]int{}
	}
	fr.callCount[name]++
	keys := []string{name, fmt.Sprintf("%s#%d", name, fr.callCount[name])}
	if c, ok := common.Value.(*ssa.Function); ok && c.Origin() != nil && c.Name() != name {
		// an instance of a generic function can be addressed by its instantiated name, e.g. calcPRelu[float32]
		keys = append(keys, c.Name())
	}
	for _, k := range keys {
		for n, cl := range fr.contract.Before[k] {
			env := x.funcEnv(fr, fr.curSt)
			env.loop = fr.innermostLoop(fr.curBlock)
			env.atPoint = true
			// $arg0, $arg1, ...: the actual arguments of the call (static calls only)
			if !common.IsInvoke() {
				for ai, a := range common.Args {
					env.vars[fmt.Sprintf("$arg%d", ai)] = x.valueOf(fr, a)
				}
			}
			label := cl.Label
			if label == "" {
				label = fmt.Sprintf("%s:%d", k, n+1)
			}
			g := x.evalBool(env, cl.E)
			x.oblige(fr, "assert", label, x.clauseTags(fr.contract, cl), g, fr.curPC, "proof hint before call to "+k, cl.Src)
		}
	}
}

func (fr *Frame) innermostLoop(b *ssa.BasicBlock) *Loop {
	var best *Loop
	for _, l := range fr.loopList {
		if l.Body[b] && (best == nil || best.Body[l.Header]) {
			best = l
		}
	}
	return best
}

func (x *Exec) call(fr *Frame, i *ssa.Call) {
	common := i.Common()
	x.beforeHints(fr, i)
	pc := fr.curPC
	if common.IsInvoke() {
		x.invoke(fr, i)
		return
	}
	var args []Val
	for _, a := range common.Args {
		v := x.valueOf(fr, a)
		if fa, ok := a.(*ssa.FieldAddr); ok {
			// a method promoted from an embedded field of gorgonia's Dense (AP, array): the receiver
			// is the address of that field; the tensor models identify the tensor by the Dense pointer
			if pt, ok := fa.X.Type().Underlying().(*types.Pointer); ok && isNamed(pt.Elem(), "gorgonia.org/tensor", "Dense") {
				v = Val{T: v.T, C: []string{x.valueOf(fr, fa.X).C[0]}}
			}
		}
		args = append(args, v)
	}
	switch callee := common.Value.(type) {
	case *ssa.Builtin:
		x.builtin(fr, i, callee, args)
		return
	case *ssa.Function:
		x.staticCall(fr, i, callee, args, nil)
		return
	case *ssa.MakeClosure:
		var bs []Val
		for _, b := range callee.Bindings {
			bs = append(bs, x.valueOf(fr, b))
		}
		x.staticCall(fr, i, callee.Fn.(*ssa.Function), args, bs)
		return
	}
	// dynamic function value
	fv := x.valueOf(fr, common.Value)
	x.nilCheck(fr, fv.C[0], "function value "+common.Value.Name())
	if ci, ok := x.closures()[fv.C[0]]; ok {
		x.staticCall(fr, i, ci.fn, args, ci.bindings)
		return
	}
	if id, ok := litInt(fv.C[0]); ok && id >= 1 && int(id) <= len(x.funcByID) {
		x.staticCall(fr, i, x.funcByID[id-1], args, nil)
		return
	}
	// closed world: the value must be one of the module's functions of this signature that are
	// under contract; the call is a case split over them
	if cands := x.dynamicTargets(common.Signature()); len(cands) > 0 {
		var alts []string
		for _, c := range cands {
			alts = append(alts, eq(fv.C[0], c.id))
		}
		x.oblige(fr, "pre", "dynamic-call-target", x.contractTags(fr), or(alts...), pc,
			"function value is not one of the module's functions of this signature that are under contract", "")
		pc0, st0 := fr.curPC, fr.curSt
		var pcs []string
		var sts []*State
		var vals []Val
		// functions sharing one contract object (a family) are handled by a single application
		type group struct {
			c     dynTarget
			conds []string
		}
		var groups []*group
		for _, c := range cands {
			var g *group
			for _, gg := range groups {
				if gg.c.c == c.c && c.c.Family != "" {
					g = gg
				}
			}
			if g == nil {
				g = &group{c: c}
				if c.c.Family != "" {
					g.c.label = c.c.Family
				}
				groups = append(groups, g)
			}
			g.conds = append(g.conds, eq(fv.C[0], c.id))
		}
		for _, g := range groups {
			fr.curPC = and(pc0, or(g.conds...))
			fr.curSt = st0.clone()
			v := x.applyContract(fr, g.c.c, g.c.label, g.c.fn.Signature, args, false)
			pcs = append(pcs, fr.curPC)
			sts = append(sts, fr.curSt)
			vals = append(vals, v)
		}
		fr.curPC = pc0
		if len(groups) == 1 {
			fr.curSt = sts[0]
			fr.vals[i] = vals[0]
			return
		}
		fr.curSt = x.mergeStates(pcs, sts)
		fr.vals[i] = x.mergeVals("dyncall", pcs, vals)
		return
	}
	x.unsupportedf(fr, pc, "call through function value %s of type %s without a contract", common.Value.Name(), common.Value.Type())
	fr.vals[i] = x.freshVal(i.Name(), i.Type())
}

func (x *Exec) staticCall(fr *Frame, i *ssa.Call, fn *ssa.Function, args []Val, bindings []Val) {
	pc := fr.curPC
	name := fn.String()
	if h, ok := intrinsics[intrinsicKey(fn)]; ok {
		x.trustedUsed[intrinsicKey(fn)] = true
		fr.vals[i] = h(x, fr, i, fn, args)
		return
	}
	if c := x.contractFor(fn); c != nil && !x.forceInline(fn) {
		label := funcKey(fn)
		restore := x.withTypeArgs(fn)
		res := x.applyContract(fr, c, label, fn.Signature, args, false)
		restore()
		x.noteContractUse(fn, c)
		fr.vals[i] = res
		return
	}
	if x.inModule(fn) || x.inlineExternal(fn) {
		if fn.Blocks == nil {
			x.unsupportedf(fr, pc, "call to %s: no body", name)
			fr.vals[i] = x.freshVal(i.Name(), i.Type())
			return
		}
		if hasLoops(fn) && x.implicitFrame {
			// frame sweep: a helper without a contract is called through (and verified in the same run
			// against) the implicit contract "modifies nothing but its receiver's own state"; its
			// results are unconstrained
			c := x.implicitFrameContract(fn)
			res := x.applyContract(fr, c, funcKey(fn), fn.Signature, args, false)
			x.noteContractUse(fn, c)
			fr.vals[i] = res
			return
		}
		if hasLoops(fn) {
			x.unsupportedf(fr, pc, "uncontracted-call: %s has loops and no contract", name)
			fr.vals[i] = x.freshVal(i.Name(), i.Type())
			return
		}
		if fr.depth >= maxInlineDepth {
			x.unsupportedf(fr, pc, "uncontracted-call: inline depth exceeded at %s", name)
			fr.vals[i] = x.freshVal(i.Name(), i.Type())
			return
		}
		x.inlined[funcKey(fn)] = true
		res := x.inlineCall(fr, fn, args, bindings)
		fr.vals[i] = res
		return
	}
	x.unsupportedf(fr, pc, "uncontracted-call: external function %s has no trusted model", name)
	r := x.freshVal(i.Name(), i.Type())
	x.assume(pc, x.typeInv(r, fr.curSt))
	fr.vals[i] = r
}

func (x *Exec) forceInline(fn *ssa.Function) bool { return false }

// typeByName resolves a type spelling of a contract; inside the contract of a generic function
// the names of its type parameters stand for the type arguments of the instance at hand.
func (x *Exec) typeByName(s string) types.Type {
	s = strings.TrimSpace(s)
	if strings.HasPrefix(s, "[]") {
		if e := x.typeByName(s[2:]); e != nil {
			return types.NewSlice(e)
		}
		return nil
	}
	if t, ok := x.tsubst[s]; ok {
		return t
	}
	return x.prog.typeByName(s)
}

// withTypeArgs binds the type parameter names of fn's generic origin to the instance's type
// arguments for the duration of a contract evaluation; returns the restore function.
func (x *Exec) withTypeArgs(fn *ssa.Function) func() {
	saved := x.tsubst
	x.tsubst = nil
	if o := fn.Origin(); o != nil && o.TypeParams() != nil {
		targs := fn.TypeArgs()
		m := map[string]types.Type{}
		for k := 0; k < o.TypeParams().Len() && k < len(targs); k++ {
			m[o.TypeParams().At(k).Obj().Name()] = targs[k]
		}
		x.tsubst = m
	}
	return func() { x.tsubst = saved }
}

// inlineExternal: tiny dependency functions that are safe to execute symbolically.
func (x *Exec) inlineExternal(fn *ssa.Function) bool {
	if fn.Pkg == nil {
		return false
	}
	return false
}

func (x *Exec) noteContractUse(fn *ssa.Function, c *Contract) {
	if x.usedContracts == nil {
		x.usedContracts = map[string]*ssa.Function{}
	}
	if c.Trusted {
		x.trustedUsed["contract:"+funcKey(fn)] = true
		return
	}
	x.usedContracts[funcKey(fn)] = fn
}

func (x *Exec) inlineCall(fr *Frame, fn *ssa.Function, args []Val, bindings []Val) Val {
	sub := x.newFrame(fn, fr.depth+1)
	sub.top = false
	sub.contract = nil
	for k, p := range fn.Params {
		sub.vals[p] = Val{T: p.Type(), C: args[k].C}
	}
	for k, fv := range fn.FreeVars {
		if k < len(bindings) {
			sub.vals[fv] = Val{T: fv.Type(), C: bindings[k].C}
		}
	}
	savedPos := x.curPosFn
	res := x.runFunction(sub, fr.curSt, fr.curPC)
	x.curPosFn = savedPos
	fr.curPC = res.pc
	fr.curSt = res.st
	rt := fn.Signature.Results()
	switch rt.Len() {
	case 0:
		return Val{T: rt}
	case 1:
		if len(res.vals) == 0 {
			return zeroVal(rt.At(0).Type())
		}
		return res.vals[0]
	}
	var cs []string
	if len(res.vals) == 0 {
		return zeroVal(rt)
	}
	for _, v := range res.vals {
		cs = append(cs, v.C...)
	}
	return Val{T: rt, C: cs}
}

func (x *Exec) newFrame(fn *ssa.Function, depth int) *Frame {
	return &Frame{fn: fn, x: x, vals: map[ssa.Value]Val{}, addrs: map[ssa.Value]Addr{},
		outPC: map[*ssa.BasicBlock]string{}, outSt: map[*ssa.BasicBlock]*State{},
		edgeCond: map[*ssa.BasicBlock][2]string{}, depth: depth,
		loopHeadSt: map[*ssa.BasicBlock]*State{}}
}

// ---------------------------------------------------------------------------------------
// contracts at call sites

func resultVars(sig *types.Signature, res Val) map[string]Val {
	out := map[string]Val{}
	rt := sig.Results()
	if rt.Len() == 0 {
		return out
	}
	// a parameter called "result" keeps its name; the returned value is then result0 / err
	defer func() {
		for k := 0; k < sig.Params().Len(); k++ {
			if sig.Params().At(k).Name() == "result" {
				delete(out, "result")
			}
		}
	}()
	if rt.Len() == 1 {
		out["result"] = res
		out["result0"] = res
		if n := rt.At(0).Name(); n != "" && n != "_" {
			out[n] = res
		}
		if isErrorType(rt.At(0).Type()) {
			out["err"] = res
		}
		return out
	}
	for k := 0; k < rt.Len(); k++ {
		lo, hi := tupleRange(rt, k)
		v := Val{T: rt.At(k).Type(), C: res.C[lo:hi]}
		out[fmt.Sprintf("result%d", k)] = v
		if k == 0 {
			out["result"] = v
		}
		if n := rt.At(k).Name(); n != "" && n != "_" {
			out[n] = v
		}
		if k == rt.Len()-1 && isErrorType(rt.At(k).Type()) {
			out["err"] = v
		}
	}
	return out
}

func isErrorType(t types.Type) bool {
	n, ok := t.(*types.Named)
	return ok && n.Obj().Pkg() == nil && n.Obj().Name() == "error"
}

func paramVars(sig *types.Signature, params []string, args []Val) map[string]Val {
	out := map[string]Val{}
	if sig.Recv() != nil && len(args) > 0 {
		out["self"] = args[0]
	}
	for k, n := range params {
		if n != "" && n != "_" && k < len(args) {
			out[n] = args[k]
		}
	}
	return out
}

func sigParamNames(sig *types.Signature, withRecv bool) []string {
	var names []string
	if withRecv && sig.Recv() != nil {
		names = append(names, sig.Recv().Name())
	}
	for k := 0; k < sig.Params().Len(); k++ {
		names = append(names, sig.Params().At(k).Name())
	}
	return names
}

// applyContract: assert requires, havoc modifies, assume ensures.
// funcValueFirst: args[0] is the function value itself (function-type contracts), bound to "fn".
func (x *Exec) applyContract(fr *Frame, c *Contract, label string, sig *types.Signature, args []Val, funcValueFirst bool) Val {
	st := fr.curSt
	pc := fr.curPC
	var names []string
	if funcValueFirst {
		names = append([]string{"fn"}, sigParamNames(sig, false)...)
	} else {
		names = sigParamNames(sig, true)
	}
	pre := st.clone()
	env := &SpecEnv{x: x, fr: fr, vars: paramVars(sig, names, args), st: pre, old: pre, allocOld: x.alloc(pre)}
	for k, cl := range c.Requires {
		lbl := cl.Label
		if lbl == "" {
			lbl = fmt.Sprint(k + 1)
		}
		g := x.evalBool(env, cl.E)
		x.oblige(fr, "pre", sanitize(label)+":"+lbl, x.contractTags(fr), g, pc, "precondition of "+label, cl.Src)
	}
	// modifies
	for _, ml := range c.Modifies {
		for _, ls := range x.evalLoc(env, ml) {
			x.checkFrameLoc(fr, ls, "call to "+label+" modifies "+ml.Src)
			x.havocLoc(st, ls)
		}
	}
	// the callee may allocate
	oldA := x.alloc(st)
	newA := x.fresh("alloc_after_"+sanitize(label), SInt)
	st.H["$alloc"] = newA
	x.recordStore("$alloc", "")
	x.assume("true", sx(">=", newA, oldA))
	// results
	rt := sig.Results()
	var res Val
	switch rt.Len() {
	case 0:
		res = Val{T: rt}
	case 1:
		res = x.freshVal(sanitize(label)+"_res", rt.At(0).Type())
	default:
		res = x.freshVal(sanitize(label)+"_res", rt)
	}
	if rt.Len() > 0 {
		x.assume(pc, x.typeInv(res, st))
	}
	env2 := &SpecEnv{x: x, fr: fr, vars: paramVars(sig, names, args), st: st, old: pre, allocOld: oldA}
	for k, v := range resultVars(sig, res) {
		env2.vars[k] = v
	}
	for _, cl := range c.Ensures {
		if !x.clauseActive(c, cl) {
			continue
		}
		if x.carvedOut(label, cl) {
			continue
		}
		x.assume(pc, x.evalBool(env2, cl.E))
	}
	return res
}

// carvedOut: clauses with a known finding are not assumed at call sites (the carved
// version would be; we simply drop the clause, which is sound).
func (x *Exec) carvedOut(label string, cl *Clause) bool {
	if x.prog.known == nil {
		return false
	}
	lbl := cl.Label
	return x.prog.known.hasOpen(label + "#post:" + lbl)
}

// havocLoc replaces the designated locations by unknown values, keeping everything else.
func (x *Exec) havocLoc(st *State, ls LocSet) {
	for _, cn := range ls.Comps {
		sort := x.compSorts[cn]
		oldS, newS := x.havocComp(st, cn, sort)
		x.recordStore(cn, ls.Ref)
		x.emit(sx("assert", fmt.Sprintf("(forall ((r Int)) (! (=> (not (= r %s)) (= (select %s r) (select %s r))) :pattern ((select %s r))))", ls.Ref, newS, oldS, newS)))
		if ls.Lo != "" {
			x.emit(sx("assert", fmt.Sprintf("(forall ((j Int)) (! (=> (or (< j %s) (>= j %s)) (= (select (select %s %s) j) (select (select %s %s) j))) :pattern ((select (select %s %s) j))))",
				ls.Lo, ls.Hi, newS, ls.Ref, oldS, ls.Ref, newS, ls.Ref)))
		}
	}
}

// checkFrameWrite: a write to component comp of object ref (element idx) must be permitted
// by the modifies clause of the function under verification, unless the object is fresh.
func (x *Exec) checkFrameWrite(fr *Frame, comp, ref, idx, what string) {
	top := x.topFrame
	if top == nil || x.probing > 0 || x.noFrame {
		return
	}
	if x.allocTerms[ref] {
		return
	}
	if strings.HasPrefix(comp, "GV$") {
		return
	}
	if comp == "G$t$cont" {
		// tensor contents: decided by the buffer, which views share with their source
		x.oblige(fr, "frame", "write", x.contractTags(top), x.permitted(fr, comp, ref), fr.curPC, what+" is not permitted by the modifies clause", "")
		return
	}
	var alts []string
	alts = append(alts, sx(">=", ref, top.allocEntry), sx("<", ref, "0")) // negative reference: no location (see boxedslice)
	if x.emptyRange != "" {
		alts = append(alts, x.emptyRange)
	}
	for _, ls := range top.modLocs {
		match := false
		for _, cn := range ls.Comps {
			if cn == comp {
				match = true
			}
		}
		if !match {
			continue
		}
		c := eq(ref, ls.Ref)
		if ls.Lo != "" && idx != "" {
			c = and(c, sx("<=", ls.Lo, idx), sx("<", idx, ls.Hi))
		}
		alts = append(alts, c)
	}
	x.oblige(fr, "frame", "write", x.contractTags(top), or(alts...), fr.curPC, what+" is not permitted by the modifies clause", "")
}

func prefixOf(comp string) string {
	if j := strings.LastIndex(comp, "$"); j > 0 {
		return comp[:j]
	}
	return comp
}

func (x *Exec) checkFrameLoc(fr *Frame, ls LocSet, what string) {
	for _, cn := range ls.Comps {
		idx := ""
		if ls.Lo != "" {
			// the whole range must be covered: check both ends (an empty range writes nothing)
			x.emptyRange = sx(">=", ls.Lo, ls.Hi)
			x.checkFrameWrite(fr, cn, ls.Ref, ls.Lo, what)
			x.checkFrameWrite(fr, cn, ls.Ref, sub(ls.Hi, "1"), what)
			x.emptyRange = ""
			continue
		}
		x.checkFrameWrite(fr, cn, ls.Ref, idx, what)
		break // one obligation per object is enough when all components share the reference
	}
}

// ---------------------------------------------------------------------------------------
// interface method invocation

func (x *Exec) invoke(fr *Frame, i *ssa.Call) {
	common := i.Common()
	pc := fr.curPC
	recv := x.valueOf(fr, common.Value)
	var args []Val
	for _, a := range common.Args {
		args = append(args, x.valueOf(fr, a))
	}
	x.oblige(fr, "nopanic", "nil-invoke", x.contractTags(fr), not(eq(recv.tag(), "0")), pc, "method call on nil interface "+common.Value.Name(), "")
	it := common.Value.Type()
	if isOperatorIface(it) && devirtMethods[common.Method.Name()] {
		if v, ok := x.devirtCall(fr, recv, common.Method.Name(), args, false); ok {
			fr.vals[i] = v
			return
		}
	}
	key := ifaceMethodKey(it, common.Method.Name())
	if h, ok := intrinsics[key]; ok {
		x.trustedUsed[key] = true
		fr.vals[i] = h(x, fr, i, nil, append([]Val{recv}, args...))
		return
	}
	if c, ok := x.cs.ByTarget["iface:"+key]; ok {
		sig := common.Method.Type().(*types.Signature)
		names := append([]string{"self"}, sigParamNames(sig, false)...)
		_ = names
		res := x.applyIfaceContract(fr, c, key, sig, append([]Val{recv}, args...))
		fr.vals[i] = res
		return
	}
	x.unsupportedf(fr, pc, "uncontracted-call: interface method %s", key)
	r := x.freshVal(i.Name(), i.Type())
	x.assume(pc, x.typeInv(r, fr.curSt))
	fr.vals[i] = r
}

func ifaceMethodKey(it types.Type, method string) string {
	if n, ok := it.(*types.Named); ok {
		pkg := ""
		if n.Obj().Pkg() != nil {
			pkg = n.Obj().Pkg().Name()
		}
		return fmt.Sprintf("%s.%s.%s", pkg, n.Obj().Name(), method)
	}
	return fmt.Sprintf("%s.%s", it.String(), method)
}

func (x *Exec) applyIfaceContract(fr *Frame, c *Contract, label string, sig *types.Signature, args []Val) Val {
	// same as applyContract, with the receiver bound to "self"
	wrapped := types.NewSignatureType(nil, nil, nil, sig.Params(), sig.Results(), sig.Variadic())
	names := []string{"self"}
	for k, n := range sigParamNames(sig, false) {
		if n == "" || n == "_" {
			n = fmt.Sprintf("p%d", k)
		}
		names = append(names, n)
	}
	return x.applyContractNamed(fr, c, label, wrapped, names, args)
}

func (x *Exec) applyContractNamed(fr *Frame, c *Contract, label string, sig *types.Signature, names []string, args []Val) Val {
	st := fr.curSt
	pc := fr.curPC
	pre := st.clone()
	env := &SpecEnv{x: x, fr: fr, vars: paramVars(sig, names, args), st: pre, old: pre, allocOld: x.alloc(pre)}
	for k, cl := range c.Requires {
		lbl := cl.Label
		if lbl == "" {
			lbl = fmt.Sprint(k + 1)
		}
		x.oblige(fr, "pre", sanitize(label)+":"+lbl, x.contractTags(fr), x.evalBool(env, cl.E), pc, "precondition of "+label, cl.Src)
	}
	for _, ml := range c.Modifies {
		for _, ls := range x.evalLoc(env, ml) {
			x.checkFrameLoc(fr, ls, "call to "+label+" modifies "+ml.Src)
			x.havocLoc(st, ls)
		}
	}
	oldA := x.alloc(st)
	newA := x.fresh("alloc_after_"+sanitize(label), SInt)
	st.H["$alloc"] = newA
	x.recordStore("$alloc", "")
	x.assume("true", sx(">=", newA, oldA))
	rt := sig.Results()
	var res Val
	switch rt.Len() {
	case 0:
		res = Val{T: rt}
	case 1:
		res = x.freshVal(sanitize(label)+"_res", rt.At(0).Type())
	default:
		res = x.freshVal(sanitize(label)+"_res", rt)
	}
	if rt.Len() > 0 {
		x.assume(pc, x.typeInv(res, st))
	}
	env2 := &SpecEnv{x: x, fr: fr, vars: paramVars(sig, names, args), st: st, old: pre, allocOld: oldA}
	for k, v := range resultVars(sig, res) {
		env2.vars[k] = v
	}
	for _, cl := range c.Ensures {
		if !x.clauseActive(c, cl) {
			continue
		}
		x.assume(pc, x.evalBool(env2, cl.E))
	}
	x.trustedOrUsedIface(label, c)
	return res
}

func (x *Exec) trustedOrUsedIface(label string, c *Contract) {
	if c.Trusted {
		x.trustedUsed["contract:"+label] = true
	} else {
		if x.usedIface == nil {
			x.usedIface = map[string]bool{}
		}
		x.usedIface[label] = true
	}
}

// ---------------------------------------------------------------------------------------
// builtins

func (x *Exec) builtin(fr *Frame, i *ssa.Call, b *ssa.Builtin, args []Val) {
	st := fr.curSt
	pc := fr.curPC
	switch b.Name() {
	case "len":
		a := args[0]
		switch {
		case isSlice(a.T):
			fr.vals[i] = Val{T: i.Type(), C: []string{a.slen()}}
		case isString(a.T):
			fr.vals[i] = Val{T: i.Type(), C: []string{sx("str_len", a.C[0])}}
		case isMap(a.T):
			mt := a.T.Underlying().(*types.Map)
			_, ks := x.mapDomComp(mt)
			fn := "map_card_" + sanitize(ks)
			x.uninterp(fn, []string{arraySort(ks, SBool)}, SInt)
			r := x.define(i.Name(), SInt, ite(eq(a.C[0], "0"), "0", sx(fn, x.mapDom(st, mt, a.C[0]))))
			x.assume("true", sx(">=", r, "0"))
			fr.vals[i] = Val{T: i.Type(), C: []string{r}}
		default:
			x.unsupportedf(fr, pc, "len of %s", a.T)
			fr.vals[i] = x.freshVal(i.Name(), i.Type())
		}
	case "cap":
		fr.vals[i] = Val{T: i.Type(), C: []string{args[0].scap()}}
	case "append":
		fr.vals[i] = x.appendOp(fr, args[0], args[1], i.Name())
	case "copy":
		fr.vals[i] = x.copyOp(fr, args[0], args[1], i.Name())
	case "min", "max":
		op := "<="
		if b.Name() == "max" {
			op = ">="
		}
		r := args[0].C[0]
		for _, a := range args[1:] {
			r = ite(sx(op, r, a.C[0]), r, a.C[0])
		}
		fr.vals[i] = Val{T: i.Type(), C: []string{r}}
	default:
		x.unsupportedf(fr, pc, "builtin %s", b.Name())
		if i.Type() != nil {
			fr.vals[i] = x.freshVal(i.Name(), i.Type())
		}
	}
}

// appendOp models append(s, t...) exactly, including in-place growth when capacity allows.
func (x *Exec) appendOp(fr *Frame, s, t Val, hint string) Val {
	st := fr.curSt
	pc := fr.curPC
	elemT := s.T.Underlying().(*types.Slice).Elem()
	if !isSlice(t.T) {
		x.unsupportedf(fr, pc, "append of %s", t.T)
		return x.freshVal(hint, s.T)
	}
	n := t.slen()
	newLen := x.define(hint+"_len", SInt, add(s.slen(), n))
	inplace := x.define(hint+"_inplace", SBool, sx("<=", newLen, s.scap()))
	freshRef := x.newRef(st, hint+"_grow")
	capNew := x.fresh(hint+"_cap", SInt)
	x.assume("true", sx(">=", capNew, newLen))
	// append(s) with nothing to add returns s unchanged
	nothing := eq(n, "0")
	r := Val{T: s.T, C: []string{
		x.define(hint+"_base", SInt, ite(nothing, s.base(), ite(inplace, s.base(), freshRef))),
		x.define(hint+"_off", SInt, ite(nothing, s.off(), ite(inplace, s.off(), "0"))),
		newLen,
		x.define(hint+"_capv", SInt, ite(nothing, s.scap(), ite(inplace, s.scap(), capNew))),
	}}
	if nl, ok := litInt(n); ok && nl == 0 {
		return s
	}
	for k, c := range layout(elemT) {
		name := fmt.Sprintf("E$%s$%d", typeKey(elemT), k)
		sort := elemSort(c.Sort)
		oldS, newS := x.havocComp(st, name, sort)
		x.recordStore(name, s.base())
		x.recordStore(name, freshRef)
		x.emit(sx("assert", fmt.Sprintf("(forall ((r Int)) (! (=> (not (= r %s)) (= (select %s r) (select %s r))) :pattern ((select %s r))))", r.base(), newS, oldS, newS)))
		rb := r.base()
		lo1 := r.off()
		hi1 := add(r.off(), s.slen())
		x.emit(sx("assert", fmt.Sprintf("(forall ((i Int)) (! (=> (and (<= %s i) (< i %s)) (= (select (select %s %s) i) (select (select %s %s) (+ (- i %s) %s)))) :pattern ((select (select %s %s) i))))",
			lo1, hi1, newS, rb, oldS, s.base(), lo1, s.off(), newS, rb)))
		if nl, ok := litInt(n); ok && nl == 1 {
			x.emit(sx("assert", eq(sel2(newS, rb, hi1), sel2(oldS, t.base(), t.off()))))
		} else {
			hi2 := add(r.off(), newLen)
			x.emit(sx("assert", fmt.Sprintf("(forall ((i Int)) (! (=> (and (<= %s i) (< i %s)) (= (select (select %s %s) i) (select (select %s %s) (+ (- i %s) %s)))) :pattern ((select (select %s %s) i))))",
				hi1, hi2, newS, rb, oldS, t.base(), hi1, t.off(), newS, rb)))
		}
		// in place: everything outside the appended window of the old object is unchanged
		x.emit(sx("assert", implies(inplace, fmt.Sprintf("(forall ((i Int)) (! (=> (or (< i %s) (>= i %s)) (= (select (select %s %s) i) (select (select %s %s) i))) :pattern ((select (select %s %s) i))))",
			add(s.off(), s.slen()), add(s.off(), newLen), newS, s.base(), oldS, s.base(), newS, s.base()))))
	}
	return r
}

func (x *Exec) copyOp(fr *Frame, dst, src Val, hint string) Val {
	st := fr.curSt
	if !isSlice(src.T) || !isSlice(dst.T) {
		x.unsupportedf(fr, fr.curPC, "copy from %s", src.T)
		return x.freshVal(hint, types.Typ[types.Int])
	}
	elemT := dst.T.Underlying().(*types.Slice).Elem()
	n := x.define(hint+"_n", SInt, ite(sx("<=", dst.slen(), src.slen()), dst.slen(), src.slen()))
	x.checkFrameWrite(fr, fmt.Sprintf("E$%s$0", typeKey(elemT)), dst.base(), dst.off(), "copy into slice")
	for k, c := range layout(elemT) {
		name := fmt.Sprintf("E$%s$%d", typeKey(elemT), k)
		sort := elemSort(c.Sort)
		oldS, newS := x.havocComp(st, name, sort)
		x.recordStore(name, dst.base())
		x.emit(sx("assert", fmt.Sprintf("(forall ((r Int)) (! (=> (not (= r %s)) (= (select %s r) (select %s r))) :pattern ((select %s r))))", dst.base(), newS, oldS, newS)))
		x.rangeCopyAxiom(newS, oldS, dst.base(), dst.off(), n, src.base(), src.off())
	}
	return Val{T: types.Typ[types.Int], C: []string{n}}
}

// rangeCopyAxiom: newS[dst] is oldS[dst] with [dLo, dLo+n) replaced by oldS[src][sLo ...].
func (x *Exec) rangeCopyAxiom(newS, oldS, dst, dLo, n, src, sLo string) {
	x.emit(sx("assert", fmt.Sprintf("(forall ((i Int)) (! (= (select (select %s %s) i) (ite (and (<= %s i) (< i %s)) (select (select %s %s) (+ (- i %s) %s)) (select (select %s %s) i))) :pattern ((select (select %s %s) i))))",
		newS, dst, dLo, add(dLo, n), oldS, src, dLo, sLo, oldS, dst, newS, dst)))
}

type dynTarget struct {
	fn    *ssa.Function
	c     *Contract
	id    string
	label string
}

// dynamicTargets: module functions (top-level, with bodies) of exactly this signature; all of
// them must be under contract, otherwise the call cannot be resolved.
func (x *Exec) dynamicTargets(sig *types.Signature) []dynTarget {
	var fns []*ssa.Function
	for fn := range allFunctions(x.prog) {
		if fn.Blocks == nil || fn.Signature.Recv() != nil || len(fn.FreeVars) > 0 || !x.inModule(fn) || fn.Synthetic != "" {
			continue
		}
		if fn.TypeParams().Len() > 0 || len(fn.TypeArgs()) > 0 || !types.Identical(fn.Signature, sig) {
			continue
		}
		fns = append(fns, fn)
	}
	sortFuncs(fns)
	var out []dynTarget
	for _, fn := range fns {
		fc := x.contractFor(fn)
		if fc == nil && x.implicitFrame {
			fc = x.implicitFrameContract(fn)
		}
		if fc == nil {
			// not a possible target as far as the proof is concerned: the dynamic-call-target
			// obligation fails if the value could be this function
			continue
		}
		label := funcKey(fn)
		out = append(out, dynTarget{fn: fn, c: fc, id: x.funcID(fn), label: label})
		x.noteContractUse(fn, fc)
	}
	return out
}

var implicitMu sync.Mutex

// implicitFrameContract: requires nothing, ensures nothing, modifies only the receiver's own
// fields when the receiver is an operator. Registered in the contract set so that the function is
// verified against it in the same run.
func (x *Exec) implicitFrameContract(fn *ssa.Function) *Contract {
	implicitMu.Lock()
	defer implicitMu.Unlock()
	key := funcKey(fn)
	if c, ok := x.cs.ByTarget[key]; ok {
		return c
	}
	c := &Contract{Target: key, Tags: []string{x.property}, HasMod: true, Implicit: true}
	if recv := fn.Signature.Recv(); recv != nil {
		for _, im := range x.prog.operatorImpls() {
			if types.Identical(im.ptr, recv.Type()) {
				if ml, err := parseModLocs("opstate(" + fn.Params[0].Name() + ")"); err == nil {
					c.Modifies = ml
				}
			}
		}
	}
	x.cs.ByTarget[key] = c
	return c
}
