package main

// Counterexample search ("cex mode") and replay of models against the real code.

import (
	"bufio"
	"encoding/json"
	"fmt"
	"go/types"
	"io"
	"os"
	"os/exec"
	"path/filepath"
	"strconv"
	"strings"
	"time"

	"golang.org/x/tools/go/ssa"
)

// ---------------------------------------------------------------------------------------
// interactive solver session (fixed model, lazy evaluation of terms)

type modelSession struct {
	cmd    *exec.Cmd
	in     io.WriteCloser
	out    *bufio.Reader
	cache  map[string]string
	closed bool
}

func startModelSession(query string, timeoutS int) (*modelSession, string) {
	cmd := exec.Command("z3-new", "-in", "-smt2", fmt.Sprintf("-T:%d", timeoutS+30))
	in, _ := cmd.StdinPipe()
	outp, _ := cmd.StdoutPipe()
	cmd.Stderr = nil
	if err := cmd.Start(); err != nil {
		return nil, "error"
	}
	ms := &modelSession{cmd: cmd, in: in, out: bufio.NewReader(outp), cache: map[string]string{}}
	io.WriteString(in, "(set-option :produce-models true)\n(set-option :timeout "+fmt.Sprint(timeoutS*1000)+")\n")
	io.WriteString(in, query)
	io.WriteString(in, "\n(check-sat)\n")
	done := make(chan string, 1)
	go func() {
		for {
			line, err := ms.out.ReadString('\n')
			if err != nil {
				done <- "error"
				return
			}
			line = strings.TrimSpace(line)
			if line == "sat" || line == "unsat" || line == "unknown" || line == "timeout" {
				done <- line
				return
			}
		}
	}()
	select {
	case st := <-done:
		if st != "sat" {
			ms.close()
		}
		return ms, st
	case <-time.After(time.Duration(timeoutS+5) * time.Second):
		ms.close()
		return ms, "timeout"
	}
}

func (ms *modelSession) close() {
	if ms.closed {
		return
	}
	ms.closed = true
	ms.in.Close()
	ms.cmd.Process.Kill()
	ms.cmd.Wait()
}

// eval returns the model value of a term (text), "" on failure.
func (ms *modelSession) eval(term string) string {
	if v, ok := ms.cache[term]; ok {
		return v
	}
	io.WriteString(ms.in, "(get-value ("+term+"))\n")
	// read one balanced s-expression
	depth := 0
	var b strings.Builder
	started := false
	for {
		c, err := ms.out.ReadByte()
		if err != nil {
			return ""
		}
		if !started && (c == ' ' || c == '\n' || c == '\r') {
			continue
		}
		started = true
		b.WriteByte(c)
		if c == '(' {
			depth++
		} else if c == ')' {
			depth--
			if depth == 0 {
				break
			}
		} else if depth == 0 && c == '\n' {
			break
		}
	}
	out := b.String()
	m := parseGetValue(out)
	v := ""
	for _, val := range m {
		v = val
	}
	if strings.HasPrefix(strings.TrimSpace(out), "(error") {
		v = ""
	}
	ms.cache[term] = v
	return v
}

func (ms *modelSession) evalInt(term string) (int64, bool) {
	v := ms.eval(term)
	if v == "" {
		return 0, false
	}
	return parseSMTInt(v)
}

func (ms *modelSession) evalBool(term string) bool { return ms.eval(term) == "true" }

// ---------------------------------------------------------------------------------------
// cex query: quantified hypotheses are dropped (weaker hypotheses => candidate models only;
// a candidate counts only if it replays on the real code).

func (x *Exec) cexQuery(o *Obligation) string {
	var b strings.Builder
	b.WriteString(x.preambleNoQuant())
	lines := x.lines[:o.Prefix]
	decls, _, negGoal := preInstantiate(nil, o.PC, o.Goal, 0, nil)
	cands := map[string][]*sx_{"Int": {{atom: "0"}, {atom: "1"}, {atom: "2"}}}
	for _, d := range decls {
		b.WriteString(d + "\n")
		f := strings.Fields(strings.Trim(d, "()"))
		cands[f[2]] = append(cands[f[2]], &sx_{atom: f[1]})
	}
	for _, l := range lines {
		if strings.HasPrefix(l, "(assert") && (strings.Contains(l, "(forall ") || strings.Contains(l, "(exists ")) {
			// weaken: positive single-variable foralls become finite conjunctions; anything
			// else that is quantified is dropped
			t := parseSexpr(l)
			if t == nil || len(t.kids) != 2 {
				continue
			}
			did := false
			inst := instantiate(t.kids[1], true, cands, &did)
			w := inst.String()
			if strings.Contains(w, "(forall ") || strings.Contains(w, "(exists ") {
				continue
			}
			b.WriteString("(assert " + w + ")\n")
			continue
		}
		b.WriteString(l)
		b.WriteByte('\n')
	}
	b.WriteString(x.prog.lemmaInstances(lines, o.Goal))
	b.WriteString(x.prog.boundedUnfold(lines, o.Goal, 6))
	b.WriteString(sx("assert", o.PC) + "\n")
	if strings.Contains(negGoal, "(forall ") || strings.Contains(negGoal, "(exists ") {
		negGoal = sx("assert", not(o.Goal))
	}
	b.WriteString(negGoal + "\n")
	return b.String()
}

func (x *Exec) preambleNoQuant() string {
	var out []string
	for _, l := range strings.Split(x.preamble(), "\n") {
		if strings.HasPrefix(l, "(assert (forall") {
			continue
		}
		out = append(out, l)
	}
	return strings.Join(out, "\n") + "\n"
}

// ---------------------------------------------------------------------------------------
// reification of model values into Go source

type reifier struct {
	x       *Exec
	ms      *modelSession
	st      *State // entry state
	imports map[string]bool
	pkg     *types.Package // package of the test
	fail    string
	depth   int
	strs    map[string]string // model Str value -> Go literal
	keys    []string          // Str terms seen (candidate map keys)
	pre     []string          // statements to run before the call
	nvar    int
}

func (r *reifier) failf(f string, a ...any) string {
	if r.fail == "" {
		r.fail = fmt.Sprintf(f, a...)
	}
	return "nil"
}

func (r *reifier) typeStr(t types.Type) string {
	return types.TypeString(t, func(p *types.Package) string {
		if p == r.pkg {
			return ""
		}
		r.imports[p.Path()] = true
		return p.Name()
	})
}

func (r *reifier) strValue(term string) string {
	x := r.x
	if r.ms.evalBool(eq(term, "str_empty")) {
		return `""`
	}
	for _, lit := range x.strOrder {
		if r.ms.evalBool(eq(term, x.strLits[lit])) {
			return strconv.Quote(lit)
		}
	}
	v := r.ms.eval(term)
	if g, ok := r.strs[v]; ok {
		return g
	}
	g := strconv.Quote(fmt.Sprintf("s%d", len(r.strs)+1))
	r.strs[v] = g
	return g
}

func fpBits(v string) (uint64, bool) {
	v = strings.TrimSpace(v)
	if strings.HasPrefix(v, "(fp ") {
		parts := strings.Fields(strings.Trim(v, "()"))
		if len(parts) != 4 {
			return 0, false
		}
		bits := ""
		for _, p := range parts[1:] {
			if strings.HasPrefix(p, "#b") {
				bits += p[2:]
			} else if strings.HasPrefix(p, "#x") {
				n, err := strconv.ParseUint(p[2:], 16, 64)
				if err != nil {
					return 0, false
				}
				bits += fmt.Sprintf("%0*b", 4*len(p[2:]), n)
			}
		}
		n, err := strconv.ParseUint(bits, 2, 64)
		return n, err == nil
	}
	f := strings.Fields(strings.Trim(v, "()"))
	if len(f) == 4 && f[0] == "_" {
		eb, _ := strconv.Atoi(f[2])
		sb, _ := strconv.Atoi(f[3])
		total := eb + sb
		expAll := (uint64(1)<<uint(eb) - 1) << uint(sb-1)
		switch f[1] {
		case "+zero":
			return 0, true
		case "-zero":
			return 1 << uint(total-1), true
		case "+oo":
			return expAll, true
		case "-oo":
			return expAll | 1<<uint(total-1), true
		case "NaN":
			return expAll | 1<<uint(sb-2), true
		}
	}
	return 0, false
}

func (r *reifier) val(v Val) string {
	if r.depth > 8 {
		return r.failf("value nesting too deep")
	}
	r.depth++
	defer func() { r.depth-- }()
	x := r.x
	t := v.T
	ts := r.typeStr(t)
	if isDtype(t) {
		code, _ := r.ms.evalInt(v.C[0])
		if code >= 1 && int(code) <= len(dtypeNames) {
			r.imports["gorgonia.org/tensor"] = true
			return "tensor." + dtypeNames[code-1]
		}
		r.imports["gorgonia.org/tensor"] = true
		return "tensor.Dtype{}"
	}
	switch u := t.Underlying().(type) {
	case *types.Basic:
		switch {
		case u.Info()&types.IsBoolean != 0:
			return fmt.Sprintf("%s(%v)", ts, r.ms.evalBool(v.C[0]))
		case u.Info()&types.IsInteger != 0:
			val := r.ms.eval(v.C[0])
			n, ok := parseBig(val)
			if !ok {
				return r.failf("no integer value for %s", v.C[0])
			}
			lo, hi, _, _ := intRange(t)
			l, _ := parseBig(lo)
			h, _ := parseBig(hi)
			if n.Cmp(l) < 0 || n.Cmp(h) > 0 {
				return r.failf("model value %s outside the range of %s (mathematical-integer artefact)", n, ts)
			}
			return fmt.Sprintf("%s(%s)", ts, n.String())
		case u.Kind() == types.Float32:
			bits, ok := fpBits(r.ms.eval(v.C[0]))
			if !ok {
				return r.failf("no float value")
			}
			r.imports["math"] = true
			return fmt.Sprintf("%s(math.Float32frombits(0x%x))", ts, bits)
		case u.Kind() == types.Float64:
			bits, ok := fpBits(r.ms.eval(v.C[0]))
			if !ok {
				return r.failf("no float value")
			}
			r.imports["math"] = true
			return fmt.Sprintf("%s(math.Float64frombits(0x%x))", ts, bits)
		case u.Info()&types.IsString != 0:
			r.keys = append(r.keys, v.C[0])
			return fmt.Sprintf("%s(%s)", ts, r.strValue(v.C[0]))
		}
	case *types.Slice:
		base, _ := r.ms.evalInt(v.base())
		if base == 0 {
			return fmt.Sprintf("%s(nil)", ts)
		}
		n, ok := r.ms.evalInt(v.slen())
		if !ok || n < 0 {
			return r.failf("no slice length (term %s, model value %q)", truncate(v.slen(), 200), r.ms.eval(v.slen()))
		}
		if n > 64 {
			return r.failf("slice of %d elements is too large to replay", n)
		}
		var elems []string
		for k := int64(0); k < n; k++ {
			a := Addr{Prefix: "E$" + typeKey(u.Elem()), Ref: v.base(), Idx: add(v.off(), fmt.Sprint(k)), T: u.Elem()}
			elems = append(elems, r.val(x.load(r.st, a)))
		}
		capExtra, _ := r.ms.evalInt(sub(v.scap(), v.slen()))
		lit := fmt.Sprintf("%s{%s}", ts, strings.Join(elems, ", "))
		if capExtra > 0 && capExtra < 16 {
			// keep spare capacity: append may write in place
			r.nvar++
			name := fmt.Sprintf("sl%d", r.nvar)
			r.pre = append(r.pre, fmt.Sprintf("%s := make(%s, %d, %d)\ncopy(%s, %s)", name, ts, n, n+capExtra, name, lit))
			return name
		}
		return lit
	case *types.Pointer:
		ref, _ := r.ms.evalInt(v.C[0])
		if ref == 0 {
			return fmt.Sprintf("(%s)(nil)", ts)
		}
		if isDensePtr(t) {
			return r.tensor(v.C[0], false)
		}
		if stt, ok := u.Elem().Underlying().(*types.Struct); ok {
			return "&" + r.structLit(u.Elem(), stt, x.load(r.st, x.objAddr(u.Elem(), v.C[0])))
		}
		inner := r.val(x.load(r.st, x.objAddr(u.Elem(), v.C[0])))
		r.nvar++
		name := fmt.Sprintf("pv%d", r.nvar)
		r.pre = append(r.pre, fmt.Sprintf("%s := %s", name, inner))
		return "&" + name
	case *types.Struct:
		return r.structLit(t, u, v)
	case *types.Interface:
		tag, _ := r.ms.evalInt(v.tag())
		if tag == 0 {
			if ts == "error" || ts == "any" || ts == "interface{}" {
				return "nil"
			}
			return fmt.Sprintf("%s(nil)", ts)
		}
		if int(tag) <= len(x.tagTypes) && tag >= 1 {
			ct := x.tagTypes[tag-1]
			if isDensePtr(ct) {
				return r.tensor(v.pay(), true)
			}
			if ct == types.Typ[types.Invalid] {
				return r.failf("interface holding an abstract error value")
			}
			return r.val(x.unbox(r.st, v, ct))
		}
		if isTensorIface(t) {
			return r.tensor(v.pay(), true)
		}
		return r.failf("interface value with unknown dynamic type (tag %d)", tag)
	case *types.Map:
		ref, _ := r.ms.evalInt(v.C[0])
		if ref == 0 {
			return fmt.Sprintf("%s(nil)", ts)
		}
		if !isString(u.Key()) {
			return r.failf("map with non-string keys")
		}
		dom := x.mapDom(r.st, u, v.C[0])
		var entries []string
		seen := map[string]bool{}
		cands := append([]string{}, r.keys...)
		for _, lit := range x.strOrder {
			cands = append(cands, x.strLits[lit])
		}
		for _, k := range cands {
			if r.ms.evalBool(sel(dom, k)) {
				ks := r.strValue(k)
				if seen[ks] {
					continue
				}
				seen[ks] = true
				entries = append(entries, fmt.Sprintf("%s: %s", ks, r.val(x.mapGet(r.st, u, v.C[0], k))))
			}
		}
		return fmt.Sprintf("%s{%s}", ts, strings.Join(entries, ", "))
	case *types.Signature:
		id, _ := r.ms.evalInt(v.C[0])
		if id == 0 {
			return fmt.Sprintf("(%s)(nil)", ts)
		}
		if id >= 1 && int(id) <= len(x.funcByID) {
			fn := x.funcByID[id-1]
			if fn.Pkg != nil && fn.Pkg.Pkg == r.pkg {
				return fn.Name()
			}
			if fn.Pkg != nil && fn.Object() != nil && fn.Object().Exported() {
				r.imports[fn.Pkg.Pkg.Path()] = true
				return fn.Pkg.Pkg.Name() + "." + fn.Name()
			}
		}
		return r.failf("function value cannot be reconstructed")
	}
	return r.failf("cannot reconstruct a value of type %s", ts)
}

func (r *reifier) structLit(t types.Type, stt *types.Struct, v Val) string {
	var fields []string
	for i := 0; i < stt.NumFields(); i++ {
		f := stt.Field(i)
		if !f.Exported() && f.Pkg() != r.pkg {
			continue
		}
		// protobuf bookkeeping
		if f.Name() == "state" || f.Name() == "sizeCache" || f.Name() == "unknownFields" {
			continue
		}
		lo, hi := fieldRange(stt, i)
		fv := Val{T: f.Type(), C: v.C[lo:hi]}
		if _, isIface := f.Type().Underlying().(*types.Interface); isIface && !isTensorIface(f.Type()) {
			if tag, _ := r.ms.evalInt(fv.tag()); tag != 0 {
				// oneof / interface fields are left nil unless their type is known
				if int(tag) > len(r.x.tagTypes) {
					continue
				}
			}
		}
		fields = append(fields, fmt.Sprintf("%s: %s", f.Name(), r.val(fv)))
	}
	return fmt.Sprintf("%s{%s}", r.typeStr(t), strings.Join(fields, ", "))
}

var goDtypeZero = map[string]string{"Bool": "false", "Int": "int(0)", "Int8": "int8(0)", "Int16": "int16(0)", "Int32": "int32(0)", "Int64": "int64(0)",
	"Uint": "uint(0)", "Uint8": "uint8(0)", "Uint16": "uint16(0)", "Uint32": "uint32(0)", "Uint64": "uint64(0)", "Float32": "float32(0)", "Float64": "float64(0)",
	"Complex64": "complex64(0)", "Complex128": "complex128(0)", "String": `""`}

// tensor builds a concrete tensor with the model's rank, dims and dtype (contents: 1,2,3,...).
func (r *reifier) tensor(ref string, asIface bool) string {
	x := r.x
	r.imports["gorgonia.org/tensor"] = true
	rank, ok := r.ms.evalInt(x.tRank(r.st, ref))
	if !ok || rank < 0 || rank > 8 {
		return r.failf("tensor rank %d not replayable", rank)
	}
	code, _ := r.ms.evalInt(x.tDtype(r.st, ref))
	if code < 1 || int(code) > len(dtypeNames) {
		code = 12
	}
	dt := dtypeNames[code-1]
	if _, ok := goDtypeZero[dt]; !ok {
		dt = "Float32"
	}
	var dims []string
	total := int64(1)
	for k := int64(0); k < rank; k++ {
		d, _ := r.ms.evalInt(x.tDim(r.st, ref, fmt.Sprint(k)))
		if d < 0 {
			return r.failf("negative tensor dimension in model")
		}
		total *= d
		if total > 1<<16 {
			return r.failf("tensor with %d elements is too large to replay", total)
		}
		dims = append(dims, fmt.Sprint(d))
	}
	var e string
	if rank == 0 {
		e = fmt.Sprintf("tensor.New(tensor.FromScalar(%s))", goDtypeZero[dt])
	} else {
		e = fmt.Sprintf("gvcTensor(tensor.%s, %s)", dt, strings.Join(dims, ", "))
	}
	r.nvar++
	name := fmt.Sprintf("tn%d", r.nvar)
	// tensors with the same reference must be the same object
	if prev, ok := r.strs["tensor@"+r.ms.eval(ref)]; ok {
		return prev
	}
	r.pre = append(r.pre, fmt.Sprintf("%s := %s", name, e))
	out := name
	if asIface {
		out = "tensor.Tensor(" + name + ")"
	}
	r.strs["tensor@"+r.ms.eval(ref)] = out
	return out
}

// ---------------------------------------------------------------------------------------
// replay test generation

const replayHelpers = `
func gvcTensor(dt tensor.Dtype, dims ...int) *tensor.Dense {
	n := 1
	for _, d := range dims {
		n *= d
	}
	t := tensor.New(tensor.Of(dt), tensor.WithShape(dims...))
	if n > 0 {
		it := t.Iterator()
		k := 0
		for it.Reset(); !it.Done(); it.Next() {
			k++
			var v interface{}
			switch dt {
			case tensor.Float32:
				v = float32(k)
			case tensor.Float64:
				v = float64(k)
			case tensor.Int64:
				v = int64(k % 3)
			case tensor.Int32:
				v = int32(k % 3)
			case tensor.Bool:
				v = k%2 == 0
			default:
				continue
			}
			t.SetAt(v, it.Coord()...)
		}
	}
	return t
}

func gvcSnap(v interface{}) string {
	switch t := v.(type) {
	case nil:
		return "nil"
	case tensor.Tensor:
		if t == nil {
			return "nil"
		}
		return fmt.Sprintf("tensor{shape=%v strides=%v dtype=%v data=%v}", t.Shape(), t.Strides(), t.Dtype(), t.Data())
	case []tensor.Tensor:
		s := "["
		for _, e := range t {
			if e == nil {
				s += "nil;"
			} else {
				s += gvcSnap(e) + ";"
			}
		}
		return s + "]"
	case map[string]tensor.Tensor:
		keys := make([]string, 0, len(t))
		for k := range t {
			keys = append(keys, k)
		}
		sort.Strings(keys)
		s := "map{"
		for _, k := range keys {
			s += k + ":" + gvcSnap(t[k]) + ";"
		}
		return s + "}"
	}
	return fmt.Sprintf("%#v", v)
}
`

func (x *Exec) buildReplay(o *Obligation, ms *modelSession) (pkgDir string, test string, why string) {
	fr := x.topFrame
	fn := fr.fn
	if fn.Pkg == nil && fn.Origin() != nil {
		fn = fn.Origin()
	}
	var pkg *types.Package
	if fn.Pkg != nil {
		pkg = fn.Pkg.Pkg
	} else if fr.fn.Object() != nil {
		pkg = fr.fn.Object().Pkg()
	}
	if pkg == nil {
		return "", "", "function has no package"
	}
	r := &reifier{x: x, ms: ms, st: fr.entry, imports: map[string]bool{"testing": true, "fmt": true, "sort": true, "gorgonia.org/tensor": true}, pkg: pkg, strs: map[string]string{}}
	var args []string
	var snaps []string
	for k, p := range fr.fn.Params {
		a := r.val(fr.params[k])
		name := fmt.Sprintf("a%d", k)
		args = append(args, fmt.Sprintf("%s := %s", name, a))
		snaps = append(snaps, name)
		_ = p
	}
	if r.fail != "" {
		return "", "", r.fail
	}
	// call expression
	sig := fr.fn.Signature
	var call string
	names := make([]string, len(fr.fn.Params))
	for k := range names {
		names[k] = fmt.Sprintf("a%d", k)
	}
	variadic := sig.Variadic()
	argList := func(ns []string) string {
		if variadic && len(ns) > 0 {
			ns = append(append([]string{}, ns[:len(ns)-1]...), ns[len(ns)-1]+"...")
		}
		return strings.Join(ns, ", ")
	}
	fname := fr.fn.Name()
	if o := fr.fn.Origin(); o != nil {
		fname = o.Name()
		var tas []string
		for _, ta := range fr.fn.TypeArgs() {
			tas = append(tas, r.typeStr(ta))
		}
		fname += "[" + strings.Join(tas, ", ") + "]"
	}
	if sig.Recv() != nil {
		call = fmt.Sprintf("%s.%s(%s)", names[0], fname, argList(names[1:]))
	} else {
		call = fmt.Sprintf("%s(%s)", fname, argList(names))
	}
	nres := sig.Results().Len()
	var lhs []string
	for k := 0; k < nres; k++ {
		lhs = append(lhs, fmt.Sprintf("r%d", k))
	}
	var b strings.Builder
	b.WriteString("\n// replay of obligation " + o.Name + "\nfunc TestGvcReplay(t *testing.T) {\n")
	for _, p := range r.pre {
		b.WriteString("\t" + strings.ReplaceAll(p, "\n", "\n\t") + "\n")
	}
	for _, a := range args {
		b.WriteString("\t" + a + "\n")
	}
	for _, n := range snaps {
		b.WriteString(fmt.Sprintf("\tbefore_%s := gvcSnap(%s)\n", n, n))
	}
	b.WriteString("\tdefer func() {\n\t\tif r := recover(); r != nil {\n\t\t\tt.Fatalf(\"GVC-REPLAY-CONFIRMED panic: %v\", r)\n\t\t}\n\t}()\n")
	if nres > 0 {
		b.WriteString("\t" + strings.Join(lhs, ", ") + " := " + call + "\n")
		for _, l := range lhs {
			b.WriteString("\t_ = " + l + "\n")
		}
	} else {
		b.WriteString("\t" + call + "\n")
	}
	// frame check: inputs not listed in modifies must be unchanged
	if fr.contract == nil || len(fr.contract.Modifies) == 0 {
		for _, n := range snaps {
			b.WriteString(fmt.Sprintf("\tif after := gvcSnap(%s); after != before_%s {\n\t\tt.Fatalf(\"GVC-REPLAY-CONFIRMED input %s modified:\\n before %%s\\n after  %%s\", before_%s, after)\n\t}\n", n, n, n, n))
		}
	}
	// clause checks
	if fr.contract != nil {
		g := &goGen{x: x, r: r, fr: fr}
		for k, cl := range fr.contract.Ensures {
			if !x.clauseActive(fr.contract, cl) {
				continue
			}
			code, ok := g.clause(cl.E, names, lhs)
			label := cl.Label
			if label == "" {
				label = fmt.Sprint(k + 1)
			}
			if !ok {
				b.WriteString(fmt.Sprintf("\t// clause %s not translatable: %s\n", label, g.why))
				g.why = ""
				continue
			}
			b.WriteString(fmt.Sprintf("\tif !(%s) {\n\t\tt.Fatalf(\"GVC-REPLAY-CONFIRMED postcondition %s violated: %%s\", %s)\n\t}\n", code, label, strconv.Quote(cl.Src)))
		}
		for p := range g.imports {
			_ = p
		}
	}
	b.WriteString("}\n")
	var h strings.Builder
	h.WriteString("package " + pkg.Name() + "\n\nimport (\n")
	var imps []string
	for p := range r.imports {
		if p != pkg.Path() {
			imps = append(imps, p)
		}
	}
	sortStrings(imps)
	for _, p := range imps {
		h.WriteString("\t" + strconv.Quote(p) + "\n")
	}
	h.WriteString(")\n\nvar _ = fmt.Sprint\nvar _ = sort.Strings\nvar _ tensor.Tensor\n")
	if r.imports["math"] {
		h.WriteString("var _ = math.Abs\n")
	}
	h.WriteString(replayHelpers)
	src := h.String() + b.String()
	return pkg.Path(), src, ""
}

func runReplayTest(repo, pkgPath, test string) (string, bool) {
	dir, err := os.MkdirTemp("", "gvcreplay")
	if err != nil {
		return err.Error(), false
	}
	defer os.RemoveAll(dir)
	rel := strings.TrimPrefix(pkgPath, "github.com/advancedclimatesystems/gonnx")
	pkgDir := filepath.Join(repo, rel)
	testFile := filepath.Join(dir, "zz_gvc_replay_test.go")
	os.WriteFile(testFile, []byte(test), 0o644)
	ov := map[string]map[string]string{"Replace": {filepath.Join(pkgDir, "zz_gvc_replay_test.go"): testFile}}
	ovb, _ := json.Marshal(ov)
	ovFile := filepath.Join(dir, "ov.json")
	os.WriteFile(ovFile, ovb, 0o644)
	cmd := exec.Command("bash", "-c", fmt.Sprintf("ulimit -v 8000000; cd %q && go test -overlay %q -vet=off -count=1 -timeout 60s -run '^TestGvcReplay$' .", pkgDir, ovFile))
	cmd.Env = append(os.Environ(), "GOFLAGS=-mod=mod", "GOPROXY=off", "GOSUMDB=off", "GOTOOLCHAIN=local")
	out, _ := cmd.CombinedOutput()
	s := string(out)
	return truncate(s, 6000), strings.Contains(s, "GVC-REPLAY-CONFIRMED")
}

// tryReplay: find a candidate model for a failed obligation and replay it.
func tryReplay(prog *Program, o *Obligation, rf *ReplayFile) bool {
	x := o.exec
	if x == nil || x.topFrame == nil {
		rf.ReplayResult = "no function context"
		return false
	}
	small := x.smallModelConstraints()
	q := x.cexQuery(o)
	if os.Getenv("GVC_DEBUG_CEX") != "" {
		os.WriteFile("/tmp/gvc_cex_"+sanitize(o.Name)+".smt2", []byte(q+small+"(check-sat)\n"), 0o644)
	}
	if small != "" {
		if ms, st := startModelSession(q+small, 10); st == "sat" {
			ms.close()
			q += small
		} else if ms != nil {
			ms.close()
		}
	}
	hints := []string{"", "8", "4", "1", "2", "3", "16", "5"}
	var last string
	tried := 0
	for _, hint := range hints {
		extra := ""
		if hint != "" {
			var cs []string
			for _, p := range x.topFrame.params {
				if isSlice(p.T) {
					cs = append(cs, eq(p.slen(), hint))
				}
			}
			if len(cs) == 0 {
				if tried > 0 {
					break
				}
				continue
			}
			extra = sx("assert", and(cs...)) + "\n"
		}
		ms, st := startModelSession(q+extra, 20)
		if st != "sat" {
			if hint == "" {
				last = "counterexample search (quantifier-free weakening) returned " + st
				if st == "unsat" {
					break
				}
			}
			continue
		}
		tried++
		pkgPath, test, why := x.buildReplay(o, ms)
		ms.close()
		if why != "" {
			last = "model could not be turned into concrete inputs: " + why
			continue
		}
		out, confirmed := runReplayTest(prog.repo, pkgPath, test)
		if confirmed || rf.ReplayTest == "" {
			rf.ReplayTest = test
			rf.ReplayPkg = pkgPath
			rf.ReplayResult = out
		}
		if confirmed {
			return true
		}
		if tried >= 5 {
			break
		}
	}
	if rf.ReplayResult == "" {
		rf.ReplayResult = last
	}
	return false
}

// smallModelConstraints bounds the sizes and integer contents of the input structure reachable
// from the parameters so that models are small enough to be rebuilt as Go values.
func (x *Exec) smallModelConstraints() string {
	fr := x.topFrame
	st := fr.entry
	var cs []string
	var walk func(v Val, depth int)
	walk = func(v Val, depth int) {
		if depth > 3 || v.T == nil || isDtype(v.T) {
			return
		}
		if ti := x.typeInv(v, st); !strings.Contains(ti, "forall") {
			cs = append(cs, ti)
		}
		switch u := v.T.Underlying().(type) {
		case *types.Basic:
			if u.Info()&types.IsInteger != 0 {
				cs = append(cs, sx("<=", "(- 3)", v.C[0]), sx("<=", v.C[0], "20"))
			}
		case *types.Slice:
			cs = append(cs, sx("<=", v.slen(), "5"), sx("<=", sub(v.scap(), v.slen()), "2"))
			for k := 0; k < 5; k++ {
				a := Addr{Prefix: "E$" + typeKey(u.Elem()), Ref: v.base(), Idx: add(v.off(), fmt.Sprint(k)), T: u.Elem()}
				walk(x.load(st, a), depth+1)
			}
		case *types.Pointer:
			if isDensePtr(v.T) {
				cs = append(cs, sx("<=", x.tRank(st, v.C[0]), "4"))
				for k := 0; k < 4; k++ {
					cs = append(cs, sx("<=", x.tDim(st, v.C[0], fmt.Sprint(k)), "4"))
				}
				return
			}
			if stt, ok := u.Elem().Underlying().(*types.Struct); ok {
				sv := x.load(st, x.objAddr(u.Elem(), v.C[0]))
				for i := 0; i < stt.NumFields(); i++ {
					if n := stt.Field(i).Name(); n == "state" || n == "sizeCache" || n == "unknownFields" {
						continue
					}
					lo, hi := fieldRange(stt, i)
					walk(Val{T: stt.Field(i).Type(), C: sv.C[lo:hi]}, depth+1)
				}
			}
		case *types.Struct:
			for i := 0; i < u.NumFields(); i++ {
				lo, hi := fieldRange(u, i)
				walk(Val{T: u.Field(i).Type(), C: v.C[lo:hi]}, depth+1)
			}
		case *types.Interface:
			if isTensorIface(v.T) {
				cs = append(cs, sx("<=", x.tRank(st, v.pay()), "4"))
				for k := 0; k < 4; k++ {
					cs = append(cs, sx("<=", x.tDim(st, v.pay(), fmt.Sprint(k)), "4"))
				}
			}
		}
	}
	for _, p := range fr.params {
		// parameters themselves keep their full integer range; only sizes below them are bounded
		switch p.T.Underlying().(type) {
		case *types.Basic:
			continue
		}
		walk(p, 0)
	}
	if len(cs) == 0 {
		return ""
	}
	if len(cs) > 3000 {
		cs = cs[:3000]
	}
	return sx("assert", and(cs...)) + "\n"
}

var _ = ssa.Function{}
