package main

import (
	"fmt"
	"sort"

	"golang.org/x/tools/go/ssa"
)

// cmdExt lists the external (non-module) functions and interface methods called by module code.
func cmdExt(prog *Program) {
	x := &Exec{prog: prog}
	counts := map[string]int{}
	for fn := range allFunctions(prog) {
		if !x.inModule(fn) || fn.Blocks == nil {
			continue
		}
		if fn.Pkg != nil && fn.Pkg.Pkg.Name() == "onnx" && fn.Signature.Recv() != nil {
			// generated protobuf methods
			if pos := prog.fset.Position(fn.Pos()); len(pos.Filename) > 6 && pos.Filename[len(pos.Filename)-6:] == ".pb.go" {
				continue
			}
		}
		for _, b := range fn.Blocks {
			for _, ins := range b.Instrs {
				c, ok := ins.(ssa.CallInstruction)
				if !ok {
					continue
				}
				cc := c.Common()
				if cc.IsInvoke() {
					key := "iface " + ifaceMethodKey(cc.Value.Type(), cc.Method.Name())
					counts[key]++
					continue
				}
				if f, ok := cc.Value.(*ssa.Function); ok && !x.inModule(f) {
					counts[intrinsicKey(f)]++
				}
			}
		}
	}
	var keys []string
	for k := range counts {
		keys = append(keys, k)
	}
	sort.Strings(keys)
	for _, k := range keys {
		have := ""
		if _, ok := intrinsics[k]; ok {
			have = "  [modelled]"
		}
		if len(k) > 6 && k[:6] == "iface " {
			if _, ok := intrinsics[k[6:]]; ok {
				have = "  [modelled]"
			}
		}
		fmt.Printf("%4d %s%s\n", counts[k], k, have)
	}
}
