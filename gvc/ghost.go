package main

// Ghost state of dependency objects (tensors, readers, construction options) and the spec
// builtins that read it.

import (
	"fmt"
	"go/types"
	"strings"

	"golang.org/x/tools/go/ssa"
)

func (p *Program) denseType() types.Type {
	if p.tensorPkg == nil {
		return nil
	}
	o := p.tensorPkg.Scope().Lookup("Dense")
	if o == nil {
		return nil
	}
	return types.NewPointer(o.Type())
}

func (p *Program) tensorIface() types.Type {
	if p.tensorPkg == nil {
		return nil
	}
	o := p.tensorPkg.Scope().Lookup("Tensor")
	if o == nil {
		return nil
	}
	return o.Type()
}

func (x *Exec) denseTag() string { return x.typeTag(x.prog.denseType()) }

func isTensorIface(t types.Type) bool { return isNamed(t, "gorgonia.org/tensor", "Tensor") }
func isDensePtr(t types.Type) bool {
	p, ok := t.(*types.Pointer)
	return ok && isNamed(p.Elem(), "gorgonia.org/tensor", "Dense")
}

// tensorRef extracts the object reference of a tensor-valued Val (interface or *Dense).
func tensorRef(v Val) string {
	if isIface(v.T) {
		return v.pay()
	}
	return v.C[0]
}

func (x *Exec) tRank(st *State, t string) string  { return x.ghostGet(st, "t$rank", t) }
func (x *Exec) tShp(st *State, t string) string   { return x.ghostGet(st, "t$shp", t) }
func (x *Exec) tDtype(st *State, t string) string { return x.ghostGet(st, "t$dtype", t) }
func (x *Exec) tBuf(st *State, t string) string   { return x.ghostGet(st, "t$buf", t) }
func (x *Exec) tBoff(st *State, t string) string  { return x.ghostGet(st, "t$boff", t) }
func (x *Exec) tBlen(st *State, t string) string  { return x.ghostGet(st, "t$blen", t) }
func (x *Exec) tCont(st *State, t string) string  { return x.ghostGet(st, "t$cont", t) }
func (x *Exec) tDim(st *State, t, i string) string {
	h := x.comp(st, "E$int$0", elemSort(SInt))
	return sel2(h, x.tShp(st, t), i)
}

// tensorWF: well-formedness of a tensor object in state st.
func (x *Exec) tensorWF(st *State, t string) string {
	rank := x.tRank(st, t)
	shp := x.tShp(st, t)
	h := x.comp(st, "E$int$0", elemSort(SInt))
	return and(sx(">=", rank, "0"), sx(">", shp, "0"), sx("<", shp, x.alloc(st)),
		sx("<=", "1", x.tDtype(st, t)), sx("<=", x.tDtype(st, t), fmt.Sprint(len(dtypeNames))),
		fmt.Sprintf("(forall ((i Int)) (! (=> (and (<= 0 i) (< i %s)) (>= (select (select %s %s) i) 0)) :pattern ((select (select %s %s) i))))", rank, h, shp, h, shp))
}

// tensorTypeInv is added to the type invariant of tensor-typed values.
func (x *Exec) tensorTypeInv(v Val, st *State) string {
	if isTensorIface(v.T) {
		return and(or(eq(v.tag(), "0"), eq(v.tag(), x.denseTag())),
			implies(not(eq(v.tag(), "0")), and(sx(">", v.pay(), "0"), x.tensorWF(st, v.pay()))))
	}
	if isDensePtr(v.T) {
		return implies(not(eq(v.C[0], "0")), x.tensorWF(st, v.C[0]))
	}
	return "true"
}

// newTensor allocates a tensor object with the given rank/shape-array/dtype.
func (x *Exec) newTensor(st *State, hint string) string {
	ref := x.newRef(st, hint)
	return ref
}

// newIntArray allocates a fresh []int object and returns its reference.
func (x *Exec) newIntArray(st *State, hint string) string {
	return x.newRef(st, hint)
}

func registerGhostBuiltins() {
	tens := func(f func(x *Exec, st *State, t string) string) specBuiltin {
		return func(e *SpecEnv, n ECall) Val {
			v := e.eval(n.Args[0])
			return specInt(f(e.x, e.st, tensorRef(v)))
		}
	}
	specBuiltins["rank"] = tens(func(x *Exec, st *State, t string) string { return x.tRank(st, t) })
	specBuiltins["contents"] = tens(func(x *Exec, st *State, t string) string { return x.tCont(st, t) })
	specBuiltins["bufof"] = tens(func(x *Exec, st *State, t string) string { return x.tBuf(st, t) })
	specBuiltins["boff"] = tens(func(x *Exec, st *State, t string) string { return x.tBoff(st, t) })
	specBuiltins["blen"] = tens(func(x *Exec, st *State, t string) string { return x.tBlen(st, t) })
	specBuiltins["shaperef"] = tens(func(x *Exec, st *State, t string) string { return x.tShp(st, t) })
	specBuiltins["dtype"] = func(e *SpecEnv, n ECall) Val {
		v := e.eval(n.Args[0])
		return Val{T: e.x.prog.dtypeType, C: []string{e.x.tDtype(e.st, tensorRef(v))}}
	}
	specBuiltins["dim"] = func(e *SpecEnv, n ECall) Val {
		v := e.eval(n.Args[0])
		i := e.eval(n.Args[1])
		return specInt(e.x.tDim(e.st, tensorRef(v), i.C[0]))
	}
	specBuiltins["shapeof"] = func(e *SpecEnv, n ECall) Val {
		v := e.eval(n.Args[0])
		t := tensorRef(v)
		rank := e.x.tRank(e.st, t)
		return Val{T: types.NewSlice(types.Typ[types.Int]), C: []string{e.x.tShp(e.st, t), "0", rank, rank}}
	}
	specBuiltins["wf"] = func(e *SpecEnv, n ECall) Val {
		v := e.eval(n.Args[0])
		return boolVal(e.x.tensorWF(e.st, tensorRef(v)))
	}
	// views: what a tensor obtained by Slice was asked to select (see viewFacts)
	specBuiltins["vparent"] = func(e *SpecEnv, n ECall) Val {
		e.x.uninterp("vparent", []string{SInt}, SInt)
		return specInt(sx("vparent", tensorRef(e.eval(n.Args[0]))))
	}
	specBuiltins["vwhole"] = func(e *SpecEnv, n ECall) Val {
		e.x.uninterp("vwhole", []string{SInt, SInt}, SBool)
		return boolVal(sx("vwhole", tensorRef(e.eval(n.Args[0])), e.eval(n.Args[1]).C[0]))
	}
	for _, f := range []string{"vstart", "vend", "vstep"} {
		f := f
		specBuiltins[f] = func(e *SpecEnv, n ECall) Val {
			e.x.uninterp(f, []string{SInt, SInt}, SInt)
			return specInt(sx(f, tensorRef(e.eval(n.Args[0])), e.eval(n.Args[1]).C[0]))
		}
	}
	specBuiltins["isdense"] = func(e *SpecEnv, n ECall) Val {
		v := e.eval(n.Args[0])
		return boolVal(eq(v.tag(), e.x.denseTag()))
	}
	specBuiltins["telem"] = func(e *SpecEnv, n ECall) Val {
		// telem(t, "float32", k): k-th element of the tensor's backing store viewed as []float32
		v := e.eval(n.Args[0])
		ts, ok := n.Args[1].(EStr)
		if !ok {
			e.fail("telem needs an element type name")
		}
		et := e.x.typeByName(ts.V)
		if et == nil {
			e.fail("telem: unknown type %q", ts.V)
		}
		k := e.eval(n.Args[2])
		t := tensorRef(v)
		a := Addr{Prefix: "E$" + typeKey(et), Ref: e.x.tBuf(e.st, t), Idx: add(e.x.tBoff(e.st, t), k.C[0]), T: et}
		return e.x.load(e.st, a)
	}
	specBuiltins["tdata"] = func(e *SpecEnv, n ECall) Val {
		// tdata(t, "int64"): the tensor's backing store viewed as a slice of that element type
		v := e.eval(n.Args[0])
		ts, ok := n.Args[1].(EStr)
		if !ok {
			e.fail("tdata needs an element type name")
		}
		et := e.x.typeByName(ts.V)
		if et == nil {
			e.fail("tdata: unknown type %q", ts.V)
		}
		t := tensorRef(v)
		ln := e.x.tBlen(e.st, t)
		return Val{T: types.NewSlice(et), C: []string{e.x.tBuf(e.st, t), e.x.tBoff(e.st, t), ln, ln}}
	}
	specBuiltins["zeroed"] = func(e *SpecEnv, n ECall) Val {
		v := e.eval(n.Args[0])
		return boolVal(eq(e.x.ghostGet(e.st, "t$zeroed", tensorRef(v)), "1"))
	}
	rd := func(field string) specBuiltin {
		return func(e *SpecEnv, n ECall) Val {
			v := e.eval(n.Args[0])
			return specInt(e.x.ghostGet(e.st, "reader$"+field, v.C[0]))
		}
	}
	specBuiltins["iterates"] = func(e *SpecEnv, n ECall) Val {
		// iterates(it, t): it is an iterator over tensor t
		it := e.eval(n.Args[0])
		t := e.eval(n.Args[1])
		return boolVal(and(not(eq(it.pay(), "0")), eq(e.x.ghostGet(e.st, "it$tensor", it.pay()), tensorRef(t))))
	}
	specBuiltins["rpos"] = rd("pos")
	specBuiltins["rbase"] = rd("base")
	specBuiltins["roff"] = rd("off")
	specBuiltins["rlen"] = rd("len")
	specBuiltins["reads"] = func(e *SpecEnv, n ECall) Val {
		// reads(r, s): reader r reads from exactly the slice s
		r := e.eval(n.Args[0]).C[0]
		s := e.eval(n.Args[1])
		x := e.x
		return boolVal(and(eq(x.ghostGet(e.st, "reader$base", r), s.base()), eq(x.ghostGet(e.st, "reader$off", r), s.off()), eq(x.ghostGet(e.st, "reader$len", r), s.slen())))
	}

	// modifies locations for tensors
	ghostLocs["hdr"] = func(env *SpecEnv, n ECall, src string) []LocSet {
		v := env.eval(n.Args[0])
		ls := LocSet{Ref: tensorRef(v), Src: src}
		for _, g := range []string{"t$rank", "t$shp", "t$dtype"} {
			env.x.ghost(env.st, g)
			ls.Comps = append(ls.Comps, "G$"+g)
		}
		return []LocSet{ls}
	}
	ghostLocs["opstate"] = func(env *SpecEnv, n ECall, src string) []LocSet {
		// every field of every operator struct of the module, at the receiver's reference
		v := env.eval(n.Args[0])
		x := env.x
		ref := v.C[0]
		if isIface(v.T) {
			ref = v.pay()
		}
		ls := LocSet{Ref: ref, Src: src}
		for _, im := range x.prog.operatorImpls() {
			et := im.ptr.(*types.Pointer).Elem()
			for k, c := range layout(et) {
				name := fmt.Sprintf("F$%s$%d", typeKey(et), k)
				x.comp(env.st, name, fieldSort(c.Sort))
				ls.Comps = append(ls.Comps, name)
			}
		}
		return []LocSet{ls}
	}
	ghostLocs["boxedslice"] = func(env *SpecEnv, n ECall, src string) []LocSet {
		// boxedslice(v): the elements of the slice boxed in the interface value v, whatever its
		// element type (one location set per basic element type; the reference is -1 for the types
		// that do not match the dynamic type of v)
		v := env.eval(n.Args[0])
		x := env.x
		var out []LocSet
		for _, k := range []types.BasicKind{types.Bool, types.Int, types.Int8, types.Int16, types.Int32, types.Int64, types.Uint, types.Uint8,
			types.Uint16, types.Uint32, types.Uint64, types.Float32, types.Float64} {
			et := types.Typ[k]
			stt := types.NewSlice(et)
			sv := x.unbox(env.st, v, stt)
			match := eq(v.tag(), x.typeTag(stt))
			name := fmt.Sprintf("E$%s$0", typeKey(et))
			x.comp(env.st, name, elemSort(layout(et)[0].Sort))
			out = append(out, LocSet{Comps: []string{name}, Ref: ite(match, sv.base(), "(- 1)"), Lo: sv.off(), Hi: add(sv.off(), sv.slen()), Src: src})
		}
		return out
	}
	ghostLocs["cont"] = func(env *SpecEnv, n ECall, src string) []LocSet {
		v := env.eval(n.Args[0])
		ls := LocSet{Ref: tensorRef(v), Src: src}
		env.x.ghost(env.st, "t$cont")
		ls.Comps = append(ls.Comps, "G$t$cont")
		return []LocSet{ls}
	}
}

// ---------------------------------------------------------------------------------------
// gorgonia construction

func init() {
	// ConsOpt values are opaque ids with ghost fields describing the option.
	reg("gorgonia.org/tensor.WithShape", "construction option carrying a copy of dims", func(x *Exec, fr *Frame, i *ssa.Call, fn *ssa.Function, args []Val) Val {
		st := fr.curSt
		id := x.newRef(st, "withshape")
		d := args[0]
		x.ghostSet(st, "co$kind", id, "1")
		x.ghostSet(st, "co$base", id, d.base())
		x.ghostSet(st, "co$off", id, d.off())
		x.ghostSet(st, "co$len", id, d.slen())
		return Val{T: i.Type(), C: []string{id}}
	})
	reg("gorgonia.org/tensor.WithBacking", "construction option aliasing the given slice as backing store", func(x *Exec, fr *Frame, i *ssa.Call, fn *ssa.Function, args []Val) Val {
		st := fr.curSt
		id := x.newRef(st, "withbacking")
		v := args[0]
		x.ghostSet(st, "co$kind", id, "2")
		x.ghostSet(st, "co$tag", id, v.tag())
		x.ghostSet(st, "co$pay", id, v.pay())
		return Val{T: i.Type(), C: []string{id}}
	})
	reg("gorgonia.org/tensor.New", "WithShape+WithBacking: panics unless backing is a slice, dims >= 0 and (len(backing)==0 or rank==0 or len(backing)==prod(dims)); empty backing => fresh zero buffer of prod(dims) elements; result aliases the backing slice",
		func(x *Exec, fr *Frame, i *ssa.Call, fn *ssa.Function, args []Val) Val {
			return x.tensorNew(fr, i, args[0])
		})
}

// sliceElemTags: tag -> element type for slice types that may back a tensor.
func (x *Exec) backingTypes() []types.Type {
	// only slice types that have been boxed into an interface in this function can be the
	// dynamic type of a backing value created here; any other tag fails the "is a slice" check.
	var out []types.Type
	for _, k := range []types.BasicKind{types.Bool, types.Int, types.Int8, types.Int16, types.Int32, types.Int64, types.Uint, types.Uint8,
		types.Uint16, types.Uint32, types.Uint64, types.Float32, types.Float64, types.Complex64, types.Complex128, types.String} {
		if _, ok := x.typeTags[typeKey(types.NewSlice(types.Typ[k]))]; ok {
			out = append(out, types.Typ[k])
		}
	}
	return out
}

func dtypeCodeOfBasic(t types.Type) int {
	b := t.Underlying().(*types.Basic)
	name := strings.ToUpper(b.Name()[:1]) + b.Name()[1:]
	return dtypeCodes[name]
}

// tensorNew models tensor.New(opts...) for the option patterns gonnx uses:
// WithShape+WithBacking, WithShape+Of, WithBacking alone, FromScalar.
func (x *Exec) tensorNew(fr *Frame, i *ssa.Call, opts Val) Val {
	st := fr.curSt
	pc := fr.curPC
	n, ok := litInt(opts.slen())
	if !ok || n == 0 {
		x.unsupportedf(fr, pc, "tensor.New with a non-literal or empty option list")
		return x.freshVal("tensor", i.Type())
	}
	optH := x.comp(st, "E$"+typeKey(opts.T.Underlying().(*types.Slice).Elem())+"$0", elemSort(SInt))
	pick := func(kind string) (string, string) {
		id, has := "0", "false"
		for k := int64(0); k < n; k++ {
			o := sel2(optH, opts.base(), add(opts.off(), fmt.Sprint(k)))
			isK := eq(x.ghostGet(st, "co$kind", o), kind)
			id = ite(isK, o, id)
			has = or(has, isK)
		}
		return x.define("opt"+kind, SInt, id), x.define("has"+kind, SBool, has)
	}
	shapeOpt, hasShape := pick("1")
	backOpt, hasBack := pick("2")
	ofOpt, hasOf := pick("3")
	scalOpt, hasScal := pick("4")
	intH := x.comp(st, "E$int$0", elemSort(SInt))
	dBase := x.ghostGet(st, "co$base", shapeOpt)
	dOff := x.ghostGet(st, "co$off", shapeOpt)
	dLen := x.define("new_rank", SInt, ite(hasShape, x.ghostGet(st, "co$len", shapeOpt), "0"))
	bTag := x.ghostGet(st, "co$tag", backOpt)
	bPay := x.ghostGet(st, "co$pay", backOpt)

	// backing slice (if any)
	var isSliceTag []string
	bBase, bOff, bLen, dcode := "0", "0", "0", "0"
	for _, et := range x.backingTypes() {
		stt := types.NewSlice(et)
		tag := x.typeTag(stt)
		c := eq(bTag, tag)
		isSliceTag = append(isSliceTag, c)
		sv := x.unbox(st, Val{T: types.NewInterfaceType(nil, nil), C: []string{bTag, bPay}}, stt)
		bBase = ite(c, sv.base(), bBase)
		bOff = ite(c, sv.off(), bOff)
		bLen = ite(c, sv.slen(), bLen)
		dcode = ite(c, fmt.Sprint(dtypeCodeOfBasic(et)), dcode)
	}
	bLen = x.define("new_blen", SInt, bLen)
	total := x.define("new_total", SInt, sx("prod", sel(intH, dBase), dOff, dLen))
	nilSlice := x.define("new_nilbacking", SBool, eq(bBase, "0"))
	dimsPos := fmt.Sprintf("(forall ((i Int)) (=> (and (<= 0 i) (< i %s)) (>= (select (select %s %s) (+ %s i)) 0)))", dLen, intH, dBase, dOff)

	x.oblige(fr, "nopanic", "tensor.New-backing-not-slice", x.contractTags(fr), implies(hasBack, and(not(eq(bTag, "0")), or(isSliceTag...))), pc,
		"tensor.New panics: WithBacking argument is nil or not a slice", "")
	x.oblige(fr, "nopanic", "tensor.New-negative-dim", x.contractTags(fr), implies(hasShape, dimsPos), pc,
		"tensor.New panics: negative dimension", "")
	x.oblige(fr, "nopanic", "tensor.New-count", x.contractTags(fr),
		implies(and(hasBack, hasShape, sx(">", dLen, "0")), or(nilSlice, eq(bLen, total))), pc,
		"tensor.New panics: len(backing) != product of dims", "")
	x.oblige(fr, "nopanic", "tensor.New-no-type", x.contractTags(fr), or(hasBack, hasOf, hasScal), pc,
		"tensor.New panics: neither a backing, an element type nor a scalar is given", "")

	// scalar option: dtype from the dynamic type of the boxed scalar
	sTag := x.ghostGet(st, "co$tag", scalOpt)
	scode := x.scalarDtype(Val{T: types.NewInterfaceType(nil, nil), C: []string{sTag, x.ghostGet(st, "co$pay", scalOpt)}})
	x.oblige(fr, "nopanic", "tensor.New-scalar-type", x.contractTags(fr), implies(hasScal, not(eq(scode, "0"))), pc,
		"tensor.FromScalar with a value that is not a Go scalar", "")

	// result shape
	t := x.newTensor(st, "tensor")
	shp := x.newIntArray(st, "shape")
	vecShape := and(hasBack, not(hasShape))
	rank := x.define("new_trank", SInt, ite(hasScal, "0", ite(vecShape, ite(eq(bLen, "1"), "0", "1"), dLen)))
	x.assume(fr.curPC, fmt.Sprintf("(forall ((i Int)) (! (=> (and (<= 0 i) (< i %s)) (= (select (select %s %s) i) (ite %s %s (select (select %s %s) (+ %s i))))) :pattern ((select (select %s %s) i))))",
		rank, intH, shp, vecShape, bLen, intH, dBase, dOff, intH, shp))
	x.ghostSet(st, "t$rank", t, rank)
	x.ghostSet(st, "t$shp", t, shp)
	dt := ite(hasScal, scode, ite(hasBack, dcode, ite(hasOf, x.ghostGet(st, "co$dtype", ofOpt), "0")))
	x.ghostSet(st, "t$dtype", t, x.define("new_dtype", SInt, dt))
	usesBacking := and(hasBack, not(nilSlice))
	freshBuf := x.newRef(st, "zerobuf")
	x.ghostSet(st, "t$buf", t, ite(usesBacking, bBase, freshBuf))
	x.ghostSet(st, "t$boff", t, ite(usesBacking, bOff, "0"))
	x.ghostSet(st, "t$blen", t, ite(usesBacking, bLen, ite(sx(">", dLen, "0"), total, "1")))
	x.ghostSet(st, "t$zeroed", t, ite(or(usesBacking, hasScal), "0", "1"))
	x.ghostSet(st, "t$view", t, "0")
	x.uninterp("cont_of_backing", []string{SInt, SInt, SInt}, SInt)
	x.ghostSet(st, "t$cont", t, ite(usesBacking, sx("cont_of_backing", bBase, bOff, bLen), x.fresh("cont", SInt)))
	return Val{T: i.Type(), C: []string{t}}
}
