package main

// Trusted models of dependency functions (standard library and gorgonia). Every model is an
// ASSUMPTION about code outside gonnx; panic conditions of the dependency become no-panic
// obligations of the calling gonnx function.

import (
	"fmt"
	"go/types"
	"math/big"
	"strings"

	"golang.org/x/tools/go/ssa"
)

type intrinsic func(x *Exec, fr *Frame, i *ssa.Call, fn *ssa.Function, args []Val) Val

var intrinsics = map[string]intrinsic{}

// intrinsicDocs: one line per trusted model, reported in the evidence.
var intrinsicDocs = map[string]string{}

func intrinsicKey(fn *ssa.Function) string {
	if o := fn.Origin(); o != nil {
		fn = o
	}
	s := fn.String()
	return s
}

func reg(key, doc string, h intrinsic) {
	intrinsics[key] = h
	intrinsicDocs[key] = doc
}

func (x *Exec) ghost(st *State, name string) string {
	return x.comp(st, "G$"+name, fieldSort(SInt))
}

func (x *Exec) ghostSet(st *State, name, ref, val string) {
	n := "G$" + name
	h := x.comp(st, n, fieldSort(SInt))
	x.setComp(st, n, fieldSort(SInt), sto(h, ref, val))
	x.recordStore(n, ref)
}

func (x *Exec) ghostGet(st *State, name, ref string) string {
	return sel(x.ghost(st, name), ref)
}

func errorType() types.Type { return types.Universe.Lookup("error").Type() }

// freshError returns a non-nil error value distinct from every sentinel.
func (x *Exec) freshError(fr *Frame, hint string) Val {
	st := fr.curSt
	ref := x.newRef(st, hint)
	// an error produced by a dependency wraps none of this module's sentinel errors (fmt.Errorf
	// overwrites these two entries when its format has a %w verb)
	x.ghostSet(st, "err$wtag", ref, "0")
	x.ghostSet(st, "err$wpay", ref, "0")
	return Val{T: errorType(), C: []string{x.typeTagName("$dyn_error"), ref}}
}

func (x *Exec) typeTagName(name string) string {
	if id, ok := x.typeTags[name]; ok {
		return fmt.Sprint(id)
	}
	id := len(x.typeTags) + 1
	x.typeTags[name] = id
	x.tagTypes = append(x.tagTypes, types.Typ[types.Invalid])
	return fmt.Sprint(id)
}

func init() {
	// ------------------------------------------------------------------ errors / fmt
	reg("fmt.Errorf", "returns a fresh non-nil error; a %w verb makes errors.Is(result, operand) true (one level)", func(x *Exec, fr *Frame, i *ssa.Call, fn *ssa.Function, args []Val) Val {
		e := x.freshError(fr, "errorf")
		st := fr.curSt
		// locate %w in a literal format string
		format := ""
		for lit, name := range x.strLits {
			if name == args[0].C[0] {
				format = lit
			}
		}
		widx := -1
		verb := 0
		for k := 0; k+1 < len(format); k++ {
			if format[k] == '%' {
				if format[k+1] == '%' {
					k++
					continue
				}
				if format[k+1] == 'w' {
					widx = verb
				}
				verb++
			}
		}
		if widx >= 0 && len(args) > 1 && isSlice(args[1].T) {
			et := args[1].T.Underlying().(*types.Slice).Elem()
			wv := x.load(st, Addr{Prefix: "E$" + typeKey(et), Ref: args[1].base(), Idx: add(args[1].off(), fmt.Sprint(widx)), T: et})
			x.ghostSet(st, "err$wtag", e.pay(), wv.tag())
			x.ghostSet(st, "err$wpay", e.pay(), wv.pay())
		} else {
			x.ghostSet(st, "err$wtag", e.pay(), "0")
			x.ghostSet(st, "err$wpay", e.pay(), "0")
		}
		return e
	})
	reg("errors.New", "returns a fresh non-nil error", func(x *Exec, fr *Frame, i *ssa.Call, fn *ssa.Function, args []Val) Val {
		return x.freshError(fr, "errnew")
	})
	reg("fmt.Sprintf", "returns some string; never panics", func(x *Exec, fr *Frame, i *ssa.Call, fn *ssa.Function, args []Val) Val {
		return x.freshVal("sprintf", types.Typ[types.String])
	})
	reg("fmt.Sprint", "returns some string; never panics", func(x *Exec, fr *Frame, i *ssa.Call, fn *ssa.Function, args []Val) Val {
		return x.freshVal("sprint", types.Typ[types.String])
	})
	reg("reflect.TypeOf", "returns some reflect.Type; never panics", func(x *Exec, fr *Frame, i *ssa.Call, fn *ssa.Function, args []Val) Val {
		return x.freshVal("typeof", i.Type())
	})

	strRes := func(x *Exec, fr *Frame, i *ssa.Call, fn *ssa.Function, args []Val) Val {
		return x.freshVal("str", i.Type())
	}
	reg("reflect.Type.Name", "returns some string; never panics on a non-nil type", strRes)
	reg("reflect.Type.String", "returns some string; never panics on a non-nil type", strRes)
	reg("(gorgonia.org/tensor.Dtype).String", "returns some string", strRes)
	// ------------------------------------------------------------------ tensor.Tensor accessors
	reg("tensor.Tensor.Shape", "returns the shape slice of the tensor header (aliases the header, not a copy)", func(x *Exec, fr *Frame, i *ssa.Call, fn *ssa.Function, args []Val) Val {
		st := fr.curSt
		t := tensorRef(args[0])
		rank := x.tRank(st, t)
		return Val{T: i.Type(), C: []string{x.tShp(st, t), "0", rank, rank}}
	})
	reg("tensor.Tensor.Dtype", "returns the element type of the tensor", func(x *Exec, fr *Frame, i *ssa.Call, fn *ssa.Function, args []Val) Val {
		return Val{T: i.Type(), C: []string{x.tDtype(fr.curSt, tensorRef(args[0]))}}
	})
	reg("tensor.Tensor.Dims", "returns the rank of the tensor", func(x *Exec, fr *Frame, i *ssa.Call, fn *ssa.Function, args []Val) Val {
		return Val{T: i.Type(), C: []string{x.tRank(fr.curSt, tensorRef(args[0]))}}
	})
	reg("google.golang.org/protobuf/proto.Unmarshal", "returns an error or fills the message with a freshly allocated, well-formed tree (repeated message fields hold no nil elements); never panics",
		func(x *Exec, fr *Frame, i *ssa.Call, fn *ssa.Function, args []Val) Val {
			st := fr.curSt
			msg := args[1]
			// the message object is overwritten; everything it points to afterwards is newly allocated
			for _, tt := range x.tagTypes {
				if p, ok := tt.(*types.Pointer); ok {
					if stt, ok := p.Elem().Underlying().(*types.Struct); ok && isNamed(p.Elem(), "gonnx/onnx", "ModelProto") {
						ly := layout(p.Elem())
						for k := range ly {
							name := fmt.Sprintf("F$%s$%d", typeKey(p.Elem()), k)
							h := x.comp(st, name, fieldSort(ly[k].Sort))
							nv := x.fresh("unmarshal_f", ly[k].Sort)
							x.setComp(st, name, fieldSort(ly[k].Sort), sto(h, msg.pay(), nv))
						}
						_ = stt
					}
				}
			}
			oldA := x.alloc(st)
			newA := x.fresh("alloc_after_unmarshal", SInt)
			st.H["$alloc"] = newA
			x.assume("true", sx(">=", newA, oldA))
			return x.errOnly(fr, x.nondetBool("unmarshal_ok"))
		})
	// ------------------------------------------------------------------ bytes.Reader
	reg("bytes.NewReader", "fresh reader over b at position 0; b is aliased, not copied", func(x *Exec, fr *Frame, i *ssa.Call, fn *ssa.Function, args []Val) Val {
		st := fr.curSt
		ref := x.newRef(st, "reader")
		b := args[0]
		x.ghostSet(st, "reader$base", ref, b.base())
		x.ghostSet(st, "reader$off", ref, b.off())
		x.ghostSet(st, "reader$len", ref, b.slen())
		x.ghostSet(st, "reader$pos", ref, "0")
		return Val{T: i.Type(), C: []string{ref}}
	})
	reg("(*bytes.Reader).Read", "pos>=len: (0, io.EOF); else copies n=min(len(p),len-pos) bytes, pos+=n, err=nil", func(x *Exec, fr *Frame, i *ssa.Call, fn *ssa.Function, args []Val) Val {
		st := fr.curSt
		pc := fr.curPC
		r := args[0].C[0]
		p := args[1]
		x.nilCheck(fr, r, "bytes.Reader")
		base := x.ghostGet(st, "reader$base", r)
		off := x.ghostGet(st, "reader$off", r)
		ln := x.ghostGet(st, "reader$len", r)
		pos := x.ghostGet(st, "reader$pos", r)
		atEOF := x.define("rd_eof", SBool, sx(">=", pos, ln))
		avail := sub(ln, pos)
		n := x.define("rd_n", SInt, ite(atEOF, "0", ite(sx("<=", p.slen(), avail), p.slen(), avail)))
		// copy
		x.checkFrameWrite(fr, "E$uint8$0", p.base(), p.off(), "bytes.Reader.Read writes into its argument")
		name := "E$uint8$0"
		oldS, newS := x.havocComp(st, name, elemSort(SInt))
		x.recordStore(name, p.base())
		x.emit(sx("assert", fmt.Sprintf("(forall ((r Int)) (! (=> (not (= r %s)) (= (select %s r) (select %s r))) :pattern ((select %s r))))", p.base(), newS, oldS, newS)))
		x.rangeCopyAxiom(newS, oldS, p.base(), p.off(), n, base, add(off, pos))
		x.ghostSet(st, "reader$pos", r, add(pos, n))
		eof, _ := x.globalValueByName(fr, "io", "EOF")
		errV := Val{T: errorType(), C: []string{ite(atEOF, eof.C[0], "0"), ite(atEOF, eof.C[1], "0")}}
		_ = pc
		return Val{T: i.Type(), C: []string{n, errV.C[0], errV.C[1]}}
	})

	// ------------------------------------------------------------------ small pure gorgonia accessors
	pureInt := func(hint string) intrinsic {
		return func(x *Exec, fr *Frame, i *ssa.Call, fn *ssa.Function, args []Val) Val {
			return x.freshVal(hint, i.Type())
		}
	}
	reg("tensor.Slice.Start", "pure accessor: some int", pureInt("slice_start"))
	reg("tensor.Slice.End", "pure accessor: some int", pureInt("slice_end"))
	reg("tensor.Slice.Step", "pure accessor: some int", pureInt("slice_step"))
	reg("tensor.Tensor.IsScalar", "true iff the shape has no dimensions (rank 0)", func(x *Exec, fr *Frame, i *ssa.Call, fn *ssa.Function, args []Val) Val {
		return boolVal(eq(x.tRank(fr.curSt, tensorRef(args[0])), "0"))
	})
	reg("(*gorgonia.org/tensor.array).Len", "number of elements of the tensor's backing store", func(x *Exec, fr *Frame, i *ssa.Call, fn *ssa.Function, args []Val) Val {
		// the receiver is the Dense the array is embedded in (see call: promoted methods)
		return Val{T: i.Type(), C: []string{x.tBlen(fr.curSt, args[0].C[0])}}
	})
	// ------------------------------------------------------------------ sort
	reg("sort.Ints", "sorts in place: afterwards non-decreasing (pairwise) and a permutation of the old contents (bijection on the index range); nothing else changes. Two derived facts are stated as well: equal old elements end up adjacent, pairwise distinct old elements end up strictly increasing", func(x *Exec, fr *Frame, i *ssa.Call, fn *ssa.Function, args []Val) Val {
		st := fr.curSt
		a := args[0]
		name := "E$int$0"
		x.emptyRange = sx("<=", a.slen(), "1") // nothing moves in a slice of at most one element
		x.checkFrameWrite(fr, name, a.base(), a.off(), "sort.Ints permutes its argument")
		x.emptyRange = ""
		oldS, newS := x.havocComp(st, name, elemSort(SInt))
		x.recordStore(name, a.base())
		x.nfresh++
		P, Q := fmt.Sprintf("sortP!%d", x.nfresh), fmt.Sprintf("sortQ!%d", x.nfresh)
		x.emit(fmt.Sprintf("(declare-fun %s (Int) Int)", P))
		x.emit(fmt.Sprintf("(declare-fun %s (Int) Int)", Q))
		lo, hi := a.off(), add(a.off(), a.slen())
		n, off, base := a.slen(), a.off(), a.base()
		at := func(h, k string) string { return sel2(h, base, add(off, k)) }
		x.emit(sx("assert", fmt.Sprintf("(forall ((r Int)) (! (=> (not (= r %s)) (= (select %s r) (select %s r))) :pattern ((select %s r))))", base, newS, oldS, newS)))
		x.emit(sx("assert", fmt.Sprintf("(forall ((i Int)) (! (=> (not (and (<= %s i) (< i %s))) (= (select (select %s %s) i) (select (select %s %s) i))) :pattern ((select (select %s %s) i))))",
			lo, hi, newS, base, oldS, base, newS, base)))
		// relative indices (off + k), the form every contract clause uses
		x.emit(sx("assert", fmt.Sprintf("(forall ((a Int)) (forall ((b Int)) (=> (and (<= 0 a) (< a b) (< b %s)) (<= %s %s))))", n, at(newS, "a"), at(newS, "b"))))
		x.emit(sx("assert", fmt.Sprintf("(forall ((k Int)) (! (=> (and (<= 0 k) (< k %s)) (and (<= 0 (%s k)) (< (%s k) %s) (= %s %s) (= (%s (%s k)) k))) :pattern (%s)))",
			n, P, P, n, at(newS, "k"), at(oldS, "("+P+" k)"), Q, P, at(newS, "k"))))
		x.emit(sx("assert", fmt.Sprintf("(forall ((j Int)) (! (=> (and (<= 0 j) (< j %s)) (and (<= 0 (%s j)) (< (%s j) %s) (= %s %s) (= (%s (%s j)) j))) :pattern (%s)))",
			n, Q, Q, n, at(newS, "("+Q+" j)"), at(oldS, "j"), P, Q, at(oldS, "j"))))
		// derived facts (consequences of sortedness and of the bijection, stated for the provers):
		// two equal old elements end up adjacent; pairwise distinct old elements end up strictly increasing
		x.emit(sx("assert", fmt.Sprintf("(forall ((a Int)) (forall ((b Int)) (=> (and (<= 0 a) (< a b) (< b %s) (= %s %s)) (exists ((k Int)) (and (<= 0 k) (< (+ k 1) %s) (= %s %s))))))",
			n, at(oldS, "a"), at(oldS, "b"), n, at(newS, "k"), at(newS, "(+ k 1)"))))
		x.emit(sx("assert", fmt.Sprintf("(=> (forall ((a Int)) (forall ((b Int)) (=> (and (<= 0 a) (< a b) (< b %s)) (not (= %s %s))))) (forall ((a Int)) (forall ((b Int)) (=> (and (<= 0 a) (< a b) (< b %s)) (< %s %s)))))",
			n, at(oldS, "a"), at(oldS, "b"), n, at(newS, "a"), at(newS, "b"))))
		// ... and the set of elements is the same (membership in the sense of the prelude's memb, unnormalised)
		oa, na := sel(oldS, base), sel(newS, base)
		x.emit(sx("assert", fmt.Sprintf("(forall ((v Int)) (! (= (memb %s %s %s 0 v) (memb %s %s %s 0 v)) :pattern ((memb %s %s %s 0 v)) :pattern ((memb %s %s %s 0 v))))",
			na, off, n, oa, off, n, na, off, n, oa, off, n)))
		return Val{T: types.NewTuple()}
	})
	// ------------------------------------------------------------------ encoding/binary, math
	le := func(nbytes int) intrinsic {
		return func(x *Exec, fr *Frame, i *ssa.Call, fn *ssa.Function, args []Val) Val {
			st := fr.curSt
			b := args[len(args)-1]
			x.oblige(fr, "nopanic", fmt.Sprintf("binary-Uint%d-short", nbytes*8), x.contractTags(fr), sx(">=", b.slen(), fmt.Sprint(nbytes)), fr.curPC,
				fmt.Sprintf("binary.LittleEndian.Uint%d on a slice shorter than %d bytes", nbytes*8, nbytes), "")
			h := x.comp(st, "E$uint8$0", elemSort(SInt))
			var terms []string
			mult := big.NewInt(1)
			for k := 0; k < nbytes; k++ {
				byteT := sel2(h, b.base(), add(b.off(), fmt.Sprint(k)))
				terms = append(terms, mul(mult.String(), byteT))
				mult = new(big.Int).Mul(mult, big.NewInt(256))
			}
			v := x.define(fmt.Sprintf("le%d", nbytes*8), SInt, sx("+", terms...))
			res := Val{T: i.Type(), C: []string{v}}
			// bytes are 0..255 so the value is in range
			for k := 0; k < nbytes; k++ {
				byteT := sel2(h, b.base(), add(b.off(), fmt.Sprint(k)))
				x.assume("true", and(sx("<=", "0", byteT), sx("<=", byteT, "255")))
			}
			return res
		}
	}
	reg("(encoding/binary.littleEndian).Uint16", "little-endian decode; panics if len(b) < 2", le(2))
	reg("(encoding/binary.littleEndian).Uint32", "little-endian decode; panics if len(b) < 4", le(4))
	reg("(encoding/binary.littleEndian).Uint64", "little-endian decode; panics if len(b) < 8", le(8))
	reg("math.Float32frombits", "bit cast (uninterpreted injective view f32frombits)", func(x *Exec, fr *Frame, i *ssa.Call, fn *ssa.Function, args []Val) Val {
		return Val{T: i.Type(), C: []string{sx("f32frombits", args[0].C[0])}}
	})
	reg("math.Float64frombits", "bit cast (uninterpreted injective view f64frombits)", func(x *Exec, fr *Frame, i *ssa.Call, fn *ssa.Function, args []Val) Val {
		return Val{T: i.Type(), C: []string{sx("f64frombits", args[0].C[0])}}
	})
}


// globalValueByName loads a package-level variable of a dependency by package name.
func (x *Exec) globalValueByName(fr *Frame, pkg, name string) (Val, bool) {
	for _, sp := range x.prog.prog.AllPackages() {
		if sp.Pkg.Name() == pkg || sp.Pkg.Path() == pkg {
			if g, ok := sp.Members[name].(*ssa.Global); ok {
				return x.globalValue(fr, g)
			}
		}
	}
	return Val{}, false
}

// ---------------------------------------------------------------------------------------
// package-level variables

var dtypeNames = []string{"Bool", "Int", "Int8", "Int16", "Int32", "Int64", "Uint", "Uint8", "Uint16", "Uint32", "Uint64",
	"Float32", "Float64", "Complex64", "Complex128", "String", "Uintptr", "UnsafePointer"}

var dtypeCodes = func() map[string]int {
	m := map[string]int{}
	for i, n := range dtypeNames {
		m[n] = i + 1
	}
	return m
}()

// globalValue returns the value of an immutable package-level variable where the engine
// knows it (dtype constants, sentinel errors, literal tables). ok=false: treat as heap cell.
func (x *Exec) globalValue(fr *Frame, g *ssa.Global) (Val, bool) {
	pt := g.Type().Underlying().(*types.Pointer)
	t := pt.Elem()
	path := g.Pkg.Pkg.Path()
	if isDtype(t) && path == "gorgonia.org/tensor" {
		if code, ok := dtypeCodes[g.Name()]; ok {
			return Val{T: t, C: []string{fmt.Sprint(code)}}, true
		}
	}
	if isErrorType(t) || (isIface(t) && strings.HasPrefix(g.Name(), "Err")) {
		// sentinel error: a fixed non-nil interface value, distinct per variable
		id := x.sentinelID(path + "." + g.Name())
		return Val{T: t, C: []string{x.typeTagName("$sentinel_error"), fmt.Sprintf("(- %d)", id)}}, true
	}
	if v, ok := x.literalGlobal(fr, g); ok {
		return v, true
	}
	return Val{}, false
}

func (x *Exec) sentinelID(name string) int {
	if x.sentinels == nil {
		x.sentinels = map[string]int{}
	}
	if id, ok := x.sentinels[name]; ok {
		return id
	}
	id := len(x.sentinels) + 1
	x.sentinels[name] = id
	return id
}
