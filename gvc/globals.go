package main

// Package-level variables initialised by map / slice literals: their contents are read from
// the package initialiser's SSA (the real code), and assumed immutable — every store to a
// package-level variable outside init is reported as a violation (global-immutable).

import (
	"fmt"
	"go/token"
	"go/types"

	"golang.org/x/tools/go/ssa"
)

func (x *Exec) globalRef(g *ssa.Global) string {
	id := x.sentinelID("global:" + g.Pkg.Pkg.Path() + "." + g.Name())
	return fmt.Sprintf("(- %d)", 1000+id)
}

// initConst evaluates a value used inside a package initialiser if it is a constant.
func (x *Exec) initConst(fr *Frame, v ssa.Value) (Val, bool) {
	switch c := v.(type) {
	case *ssa.Const:
		return x.constVal(c), true
	case *ssa.Function:
		return Val{T: c.Type(), C: []string{x.funcID(c)}}, true
	case *ssa.UnOp:
		if g, ok := c.X.(*ssa.Global); ok && c.Op == token.MUL {
			return x.globalValue(fr, g)
		}
	case *ssa.ChangeType:
		iv, ok := x.initConst(fr, c.X)
		if ok {
			return Val{T: c.Type(), C: iv.C}, true
		}
	case *ssa.Convert:
		iv, ok := x.initConst(fr, c.X)
		if ok && len(layout(c.Type())) == len(iv.C) && isInteger(c.Type()) && isInteger(iv.T) {
			return Val{T: c.Type(), C: iv.C}, true
		}
	}
	return Val{}, false
}

func (x *Exec) literalGlobal(fr *Frame, g *ssa.Global) (Val, bool) {
	initFn := g.Pkg.Func("init")
	if initFn == nil || fr == nil {
		return Val{}, false
	}
	st := fr.curSt
	if st == nil {
		st = fr.entry
	}
	var stored ssa.Value
	nStores := 0
	for _, b := range initFn.Blocks {
		for _, ins := range b.Instrs {
			if s, ok := ins.(*ssa.Store); ok && s.Addr == g {
				stored = s.Val
				nStores++
			}
		}
	}
	if nStores != 1 {
		return Val{}, false
	}
	t := g.Type().Underlying().(*types.Pointer).Elem()
	key := "lit:" + g.Pkg.Pkg.Path() + "." + g.Name()
	switch sv := stored.(type) {
	case *ssa.Const:
		x.assumed[key] = true
		return x.constVal(sv), true
	case *ssa.MakeMap:
		mt, ok := t.Underlying().(*types.Map)
		if !ok {
			return Val{}, false
		}
		ref := x.globalRef(g)
		type kv struct{ k, v Val }
		var kvs []kv
		for _, b := range initFn.Blocks {
			for _, ins := range b.Instrs {
				if mu, ok := ins.(*ssa.MapUpdate); ok && mu.Map == sv {
					k, ok1 := x.initConst(fr, mu.Key)
					v, ok2 := x.initConst(fr, mu.Value)
					if !ok1 || !ok2 {
						return Val{}, false
					}
					kvs = append(kvs, kv{k, v})
				}
			}
		}
		_, ks := x.mapDomComp(mt)
		dom := x.mapDom(st, mt, ref)
		var alts []string
		for _, e := range kvs {
			alts = append(alts, eq("k", e.k.C[0]))
		}
		x.emit(sx("assert", fmt.Sprintf("(forall ((k %s)) (! (= (select %s k) %s) :pattern ((select %s k))))", ks, dom, or(alts...), dom)))
		for _, e := range kvs {
			got := x.mapGet(st, mt, ref, e.k.C[0])
			for c := range got.C {
				x.emit(sx("assert", eq(got.C[c], e.v.C[c])))
			}
			x.emit(sx("assert", sel(dom, e.k.C[0])))
		}
		x.assumed[key] = true
		return Val{T: t, C: []string{ref}}, true
	case *ssa.Slice:
		alloc, ok := sv.X.(*ssa.Alloc)
		if !ok || sv.Low != nil || sv.High != nil {
			return Val{}, false
		}
		at, ok := alloc.Type().Underlying().(*types.Pointer).Elem().Underlying().(*types.Array)
		if !ok {
			return Val{}, false
		}
		ref := x.globalRef(g)
		n := at.Len()
		found := int64(0)
		for _, b := range initFn.Blocks {
			for _, ins := range b.Instrs {
				s, ok := ins.(*ssa.Store)
				if !ok {
					continue
				}
				ia, ok := s.Addr.(*ssa.IndexAddr)
				if !ok || ia.X != alloc {
					continue
				}
				idx, ok := ia.Index.(*ssa.Const)
				if !ok {
					return Val{}, false
				}
				v, ok := x.initConst(fr, s.Val)
				if !ok {
					return Val{}, false
				}
				a := Addr{Prefix: "E$" + typeKey(at.Elem()), Ref: ref, Idx: fmt.Sprint(idx.Int64()), T: at.Elem()}
				got := x.load(st, a)
				for c := range got.C {
					x.emit(sx("assert", eq(got.C[c], v.C[c])))
				}
				found++
			}
		}
		if found != n {
			return Val{}, false
		}
		x.assumed[key] = true
		return Val{T: t, C: []string{ref, "0", fmt.Sprint(n), fmt.Sprint(n)}}, true
	}
	return Val{}, false
}
