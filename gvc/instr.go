package main

// Instruction semantics.

import (
	"fmt"
	"go/constant"
	"go/token"
	"go/types"
	"math"
	"strconv"
	"strings"

	"golang.org/x/tools/go/ssa"
)

func (x *Exec) valueOf(fr *Frame, v ssa.Value) Val {
	switch c := v.(type) {
	case *ssa.Const:
		return x.constVal(c)
	case *ssa.Function:
		return Val{T: c.Type(), C: []string{x.funcID(c)}}
	case *ssa.Global:
		return Val{T: c.Type(), C: []string{"0"}}
	case *ssa.Builtin:
		return Val{T: c.Type(), C: []string{"0"}}
	}
	if val, ok := fr.vals[v]; ok {
		return val
	}
	panic(fmt.Sprintf("valueOf: no value for %s (%T) in %s", v.Name(), v, fr.fn))
}

// fpArith: IEEE arithmetic (round to nearest even) on floats is kept opaque: fadd32(a, b) etc. are
// uninterpreted functions declared in the prelude, so two results are known to be equal exactly
// when the operation and the operands are. No obligation of the claimed properties needs the
// numeric value of a sum or product; comparisons, negation, abs and conversions are interpreted.
func fpArith(op, sort, a, b string) string {
	w := "64"
	if sort == SF32 {
		w = "32"
	}
	return sx("f"+op+w, a, b)
}

func fpLit32(f float32) string {
	b := math.Float32bits(f)
	return fmt.Sprintf("(fp #b%01b #b%08b #b%023b)", b>>31, (b>>23)&0xff, b&0x7fffff)
}

func fpLit64(f float64) string {
	b := math.Float64bits(f)
	return fmt.Sprintf("(fp #b%01b #b%011b #b%052b)", b>>63, (b>>52)&0x7ff, b&0xfffffffffffff)
}

func (x *Exec) constVal(c *ssa.Const) Val {
	t := c.Type()
	if c.Value == nil {
		return zeroVal(t)
	}
	if isDtype(t) {
		return zeroVal(t)
	}
	switch u := t.Underlying().(type) {
	case *types.Basic:
		switch {
		case u.Info()&types.IsBoolean != 0:
			return Val{T: t, C: []string{strconv.FormatBool(constant.BoolVal(c.Value))}}
		case u.Info()&types.IsInteger != 0:
			if i, ok := constant.Int64Val(constant.ToInt(c.Value)); ok {
				return Val{T: t, C: []string{intLit(i)}}
			}
			if ui, ok := constant.Uint64Val(constant.ToInt(c.Value)); ok {
				return Val{T: t, C: []string{fmt.Sprintf("%d", ui)}}
			}
		case u.Kind() == types.Float32:
			f, _ := constant.Float32Val(c.Value)
			return Val{T: t, C: []string{fpLit32(f)}}
		case u.Info()&types.IsFloat != 0:
			f, _ := constant.Float64Val(c.Value)
			return Val{T: t, C: []string{fpLit64(f)}}
		case u.Info()&types.IsString != 0:
			return Val{T: t, C: []string{x.strLit(constant.StringVal(c.Value))}}
		}
	}
	return zeroVal(t)
}

// foldable integer arithmetic on literal terms keeps queries readable.
func litInt(t string) (int64, bool) { return parseSMTIntStrict(t) }

func parseSMTIntStrict(s string) (int64, bool) {
	if s == "" {
		return 0, false
	}
	neg := false
	body := s
	if strings.HasPrefix(s, "(- ") && strings.HasSuffix(s, ")") {
		neg = true
		body = s[3 : len(s)-1]
	}
	for _, c := range body {
		if c < '0' || c > '9' {
			return 0, false
		}
	}
	if len(body) > 18 {
		return 0, false
	}
	n, err := strconv.ParseInt(body, 10, 64)
	if err != nil {
		return 0, false
	}
	if neg {
		n = -n
	}
	return n, true
}

func add(a, b string) string {
	ai, aok := litInt(a)
	bi, bok := litInt(b)
	if aok && bok {
		return intLit(ai + bi)
	}
	if aok && ai == 0 {
		return b
	}
	if bok && bi == 0 {
		return a
	}
	return sx("+", a, b)
}

func sub(a, b string) string {
	ai, aok := litInt(a)
	bi, bok := litInt(b)
	if aok && bok {
		return intLit(ai - bi)
	}
	if bok && bi == 0 {
		return a
	}
	return sx("-", a, b)
}

func mul(a, b string) string {
	ai, aok := litInt(a)
	bi, bok := litInt(b)
	if aok && bok && abs64(ai) < 1<<31 && abs64(bi) < 1<<31 {
		return intLit(ai * bi)
	}
	if aok && ai == 1 {
		return b
	}
	if bok && bi == 1 {
		return a
	}
	return sx("*", a, b)
}

func abs64(a int64) int64 {
	if a < 0 {
		return -a
	}
	return a
}

// ---------------------------------------------------------------------------------------

func (x *Exec) execBlock(fr *Frame, b *ssa.BasicBlock) {
	for _, ins := range b.Instrs {
		ins := ins
		x.curPosFn = func() token.Position {
			p := ins.Pos()
			if !p.IsValid() {
				// fall back to an operand position
				if v, ok := ins.(ssa.Value); ok && v.Referrers() != nil {
					for _, r := range *v.Referrers() {
						if r.Pos().IsValid() {
							p = r.Pos()
							break
						}
					}
				}
			}
			return x.prog.fset.Position(p)
		}
		x.execInstr(fr, ins)
	}
}

func (x *Exec) nilCheck(fr *Frame, ref string, what string) {
	if lit, ok := litInt(ref); ok && lit != 0 {
		return
	}
	if x.allocTerms[ref] {
		return
	}
	x.oblige(fr, "nopanic", "nil-deref", x.contractTags(fr), not(eq(ref, "0")), fr.curPC, "nil dereference: "+what, "")
}

// ptrAddr converts a pointer-typed SSA value into the address of its pointee.
func (x *Exec) ptrAddr(fr *Frame, v ssa.Value) Addr {
	if a, ok := fr.addrs[v]; ok {
		return a
	}
	if g, ok := v.(*ssa.Global); ok {
		return x.globalAddr(g)
	}
	pt, ok := v.Type().Underlying().(*types.Pointer)
	if !ok {
		panic(fmt.Sprintf("ptrAddr: %s is not a pointer (%s)", v.Name(), v.Type()))
	}
	ref := x.valueOf(fr, v).C[0]
	return x.objAddr(pt.Elem(), ref)
}

// objAddr is the address of a whole object of type t at reference ref.
func (x *Exec) objAddr(t types.Type, ref string) Addr {
	if isStructT(t) {
		return Addr{Prefix: "F$" + typeKey(t), Ref: ref, T: t}
	}
	if at, ok := t.Underlying().(*types.Array); ok {
		// whole-array addresses are only used through IndexAddr / Slice
		return Addr{Prefix: "E$" + typeKey(at.Elem()), Ref: ref, T: t}
	}
	return Addr{Prefix: "C$" + typeKey(t), Ref: ref, T: t}
}

func (x *Exec) globalAddr(g *ssa.Global) Addr {
	pt := g.Type().Underlying().(*types.Pointer)
	name := "GV$" + sanitize(g.Pkg.Pkg.Path()+"."+g.Name())
	return Addr{Prefix: name, Ref: "0", T: pt.Elem(), Global: true}
}

func (x *Exec) execInstr(fr *Frame, ins ssa.Instruction) {
	pc := fr.curPC
	st := fr.curSt
	switch i := ins.(type) {
	case *ssa.DebugRef:
		return
	case *ssa.Phi:
		return // handled at block entry
	case *ssa.Alloc:
		ref := x.newRef(st, i.Name())
		fr.vals[i] = Val{T: i.Type(), C: []string{ref}}
		elemT := i.Type().Underlying().(*types.Pointer).Elem()
		x.zeroInit(st, elemT, ref)
	case *ssa.BinOp:
		fr.vals[i] = x.binop(fr, i.Op, x.valueOf(fr, i.X), x.valueOf(fr, i.Y), i.Type(), i.Name())
	case *ssa.UnOp:
		x.unop(fr, i)
	case *ssa.ChangeType:
		v := x.valueOf(fr, i.X)
		fr.vals[i] = Val{T: i.Type(), C: v.C}
	case *ssa.ChangeInterface:
		v := x.valueOf(fr, i.X)
		fr.vals[i] = Val{T: i.Type(), C: v.C}
	case *ssa.Convert:
		fr.vals[i] = x.convert(fr, x.valueOf(fr, i.X), i.Type(), i.Name())
	case *ssa.MakeInterface:
		fr.vals[i] = x.makeInterface(st, x.valueOf(fr, i.X), i.Type())
	case *ssa.TypeAssert:
		x.typeAssert(fr, i)
	case *ssa.Extract:
		tv := x.valueOf(fr, i.Tuple)
		tp := i.Tuple.Type().(*types.Tuple)
		lo, hi := tupleRange(tp, i.Index)
		fr.vals[i] = Val{T: i.Type(), C: tv.C[lo:hi]}
	case *ssa.Field:
		sv := x.valueOf(fr, i.X)
		if isDtype(i.X.Type()) {
			// the embedded reflect.Type of a tensor.Dtype: an opaque non-nil interface value
			fr.vals[i] = Val{T: i.Type(), C: []string{x.typeTagName("$reflect_rtype"), add(sv.C[0], "1")}}
			return
		}
		stt := i.X.Type().Underlying().(*types.Struct)
		lo, hi := fieldRange(stt, i.Field)
		fr.vals[i] = Val{T: i.Type(), C: sv.C[lo:hi]}
	case *ssa.FieldAddr:
		base := x.ptrAddr(fr, i.X)
		if !base.Global {
			x.nilCheck(fr, base.Ref, i.X.Name())
		}
		stt := base.T.Underlying().(*types.Struct)
		lo, _ := fieldRange(stt, i.Field)
		a := base
		a.Lo = base.Lo + lo
		a.T = stt.Field(i.Field).Type()
		fr.addrs[i] = a
		fr.vals[i] = Val{T: i.Type(), C: []string{"0"}}
	case *ssa.IndexAddr:
		idx := x.valueOf(fr, i.Index).C[0]
		switch xt := i.X.Type().Underlying().(type) {
		case *types.Slice:
			sv := x.valueOf(fr, i.X)
			x.oblige(fr, "nopanic", "index", x.contractTags(fr), and(sx("<=", "0", idx), sx("<", idx, sv.slen())), pc,
				fmt.Sprintf("index %s out of range of %s", i.Index.Name(), i.X.Name()), "")
			fr.addrs[i] = Addr{Prefix: "E$" + typeKey(xt.Elem()), Ref: sv.base(), Idx: add(sv.off(), idx), T: xt.Elem()}
		case *types.Pointer:
			at := xt.Elem().Underlying().(*types.Array)
			base := x.ptrAddr(fr, i.X)
			x.nilCheck(fr, base.Ref, i.X.Name())
			if lit, ok := litInt(idx); !ok || lit < 0 || lit >= at.Len() {
				x.oblige(fr, "nopanic", "index", x.contractTags(fr), and(sx("<=", "0", idx), sx("<", idx, fmt.Sprint(at.Len()))), pc, "array index out of range", "")
			}
			if base.Idx != "" {
				x.unsupportedf(fr, pc, "array nested in element storage")
			}
			fr.addrs[i] = Addr{Prefix: "E$" + typeKey(at.Elem()), Ref: base.Ref, Idx: idx, T: at.Elem()}
		default:
			x.unsupportedf(fr, pc, "IndexAddr on %s", i.X.Type())
		}
		fr.vals[i] = Val{T: i.Type(), C: []string{"0"}}
	case *ssa.Index:
		x.unsupportedf(fr, pc, "Index on array/string value")
		fr.vals[i] = x.freshVal(i.Name(), i.Type())
	case *ssa.Lookup:
		x.lookup(fr, i)
	case *ssa.Slice:
		x.sliceOp(fr, i)
	case *ssa.MakeSlice:
		ln := x.valueOf(fr, i.Len).C[0]
		cp := x.valueOf(fr, i.Cap).C[0]
		x.oblige(fr, "nopanic", "makeslice", x.contractTags(fr), and(sx("<=", "0", ln), sx("<=", ln, cp)), pc, "makeslice: len out of range", "")
		elemT := i.Type().Underlying().(*types.Slice).Elem()
		ref := x.newRef(st, i.Name())
		for k, c := range layout(elemT) {
			name := fmt.Sprintf("E$%s$%d", typeKey(elemT), k)
			h := x.comp(st, name, elemSort(c.Sort))
			x.setComp(st, name, elemSort(c.Sort), sto(h, ref, fmt.Sprintf("((as const (Array Int %s)) %s)", c.Sort, zeroOfSort(c.Sort))))
		}
		fr.vals[i] = Val{T: i.Type(), C: []string{ref, "0", ln, cp}}
	case *ssa.MakeMap:
		mt := i.Type().Underlying().(*types.Map)
		ref := x.newRef(st, i.Name())
		dn, ks := x.mapDomComp(mt)
		h := x.comp(st, dn, arraySort(SInt, arraySort(ks, SBool)))
		x.setComp(st, dn, arraySort(SInt, arraySort(ks, SBool)), sto(h, ref, fmt.Sprintf("((as const (Array %s Bool)) false)", ks)))
		fr.vals[i] = Val{T: i.Type(), C: []string{ref}}
	case *ssa.MapUpdate:
		x.mapUpdate(fr, i)
	case *ssa.MakeClosure:
		fn := i.Fn.(*ssa.Function)
		id := x.fresh("closure_"+fn.Name(), SInt)
		var bs []Val
		for _, b := range i.Bindings {
			bs = append(bs, x.valueOf(fr, b))
		}
		x.closures()[id] = closureInfo{fn: fn, bindings: bs}
		x.assume("true", sx(">", id, "1000000"))
		fr.vals[i] = Val{T: i.Type(), C: []string{id}}
	case *ssa.Range:
		x.rangeInstr(fr, i)
	case *ssa.Next:
		x.nextInstr(fr, i)
	case *ssa.Store:
		a := x.ptrAddr(fr, i.Addr)
		v := x.valueOf(fr, i.Val)
		if _, isFA := i.Addr.(*ssa.FieldAddr); !isFA {
			if _, isIA := i.Addr.(*ssa.IndexAddr); !isIA && !a.Global {
				x.nilCheck(fr, a.Ref, i.Addr.Name())
			}
		}
		x.checkFrameWrite(fr, fmt.Sprintf("%s$%d", a.Prefix, a.Lo), a.Ref, a.Idx, "store to "+i.Addr.Name())
		if a.Global && fr.fn.Name() != "init" {
			x.oblige(fr, "frame", "global-immutable", x.contractTags(fr), "false", pc, "store to package-level variable "+i.Addr.Name(), "")
		}
		x.store(st, a, Val{T: a.T, C: v.C})
	case *ssa.Call:
		x.call(fr, i)
	case *ssa.If:
		c := x.valueOf(fr, i.Cond).C[0]
		fr.edgeCond[fr.curBlock] = [2]string{c, not(c)}
	case *ssa.Jump:
	case *ssa.Return:
		var vals []Val
		for _, r := range i.Results {
			vals = append(vals, x.valueOf(fr, r))
		}
		if fr.top {
			if x.probing == 0 {
				x.returnPoints = append(x.returnPoints, returnPoint{line: x.prog.fset.Position(i.Pos()).Line, prefix: len(x.lines), pc: pc})
			}
			x.checkPost(fr, vals, st, pc)
		}
		fr.rets = append(fr.rets, retPoint{pc: pc, st: st, vals: vals})
	case *ssa.Panic:
		x.oblige(fr, "nopanic", "explicit-panic", x.contractTags(fr), "false", pc, "explicit panic reachable", "")
		fr.curPC = "false"
	case *ssa.RunDefers:
	default:
		x.unsupportedf(fr, pc, "instruction %T (%s)", ins, ins)
		if v, ok := ins.(ssa.Value); ok {
			fr.vals[v] = x.freshVal(v.Name(), v.Type())
		}
	}
}

func (x *Exec) closures() map[string]closureInfo {
	if x.closureTab == nil {
		x.closureTab = map[string]closureInfo{}
	}
	return x.closureTab
}

func (x *Exec) zeroInit(st *State, t types.Type, ref string) {
	if at, ok := t.Underlying().(*types.Array); ok {
		for k, c := range layout(at.Elem()) {
			name := fmt.Sprintf("E$%s$%d", typeKey(at.Elem()), k)
			h := x.comp(st, name, elemSort(c.Sort))
			x.setComp(st, name, elemSort(c.Sort), sto(h, ref, fmt.Sprintf("((as const (Array Int %s)) %s)", c.Sort, zeroOfSort(c.Sort))))
		}
		return
	}
	a := x.objAddr(t, ref)
	x.store(st, a, zeroVal(t))
}

func (x *Exec) mapDomComp(mt *types.Map) (name, keySort string) {
	ks := layout(mt.Key())[0].Sort
	return fmt.Sprintf("MD$%s$%s", typeKey(mt.Key()), typeKey(mt.Elem())), ks
}

func (x *Exec) mapValComp(mt *types.Map, k int) string {
	return fmt.Sprintf("MV$%s$%s$%d", typeKey(mt.Key()), typeKey(mt.Elem()), k)
}

func (x *Exec) mapDom(st *State, mt *types.Map, ref string) string {
	dn, ks := x.mapDomComp(mt)
	return sel(x.comp(st, dn, arraySort(SInt, arraySort(ks, SBool))), ref)
}

func (x *Exec) mapGet(st *State, mt *types.Map, ref, key string) Val {
	_, ks := x.mapDomComp(mt)
	ly := layout(mt.Elem())
	v := Val{T: mt.Elem(), C: make([]string, len(ly))}
	for k, c := range ly {
		h := x.comp(st, x.mapValComp(mt, k), arraySort(SInt, arraySort(ks, c.Sort)))
		v.C[k] = sel2(h, ref, key)
	}
	return v
}

func (x *Exec) lookup(fr *Frame, i *ssa.Lookup) {
	st := fr.curSt
	mt, ok := i.X.Type().Underlying().(*types.Map)
	if !ok {
		x.unsupportedf(fr, fr.curPC, "Lookup on %s", i.X.Type())
		fr.vals[i] = x.freshVal(i.Name(), i.Type())
		return
	}
	ref := x.valueOf(fr, i.X).C[0]
	key := x.valueOf(fr, i.Index).C[0]
	// a nil map has an empty domain
	inDom := and(not(eq(ref, "0")), sel(x.mapDom(st, mt, ref), key))
	okT := x.define(i.Name()+"_ok", SBool, inDom)
	raw := x.mapGet(st, mt, ref, key)
	zv := zeroVal(mt.Elem())
	val := Val{T: mt.Elem(), C: make([]string, len(raw.C))}
	ly := layout(mt.Elem())
	for k := range raw.C {
		val.C[k] = x.define(i.Name()+ly[k].Suffix, ly[k].Sort, ite(okT, raw.C[k], zv.C[k]))
	}
	x.assume(fr.curPC, implies(okT, x.typeInv(val, st)))
	if i.CommaOk {
		fr.vals[i] = Val{T: i.Type(), C: append(append([]string{}, val.C...), okT)}
	} else {
		fr.vals[i] = val
	}
}

func (x *Exec) mapUpdate(fr *Frame, i *ssa.MapUpdate) {
	st := fr.curSt
	mt := i.Map.Type().Underlying().(*types.Map)
	ref := x.valueOf(fr, i.Map).C[0]
	key := x.valueOf(fr, i.Key).C[0]
	val := x.valueOf(fr, i.Value)
	x.nilCheck(fr, ref, "map "+i.Map.Name())
	dn, ks := x.mapDomComp(mt)
	x.checkFrameWrite(fr, dn, ref, "", "map update "+i.Map.Name())
	x.mapStore(st, mt, ref, key, val)
	_ = dn
	_ = ks
}

func (x *Exec) mapStore(st *State, mt *types.Map, ref, key string, val Val) {
	dn, ks := x.mapDomComp(mt)
	dsort := arraySort(SInt, arraySort(ks, SBool))
	h := x.comp(st, dn, dsort)
	x.setComp(st, dn, dsort, sto2(h, ref, key, "true"))
	x.recordStore(dn, ref)
	for k, c := range layout(mt.Elem()) {
		name := x.mapValComp(mt, k)
		vs := arraySort(SInt, arraySort(ks, c.Sort))
		hv := x.comp(st, name, vs)
		x.setComp(st, name, vs, sto2(hv, ref, key, val.C[k]))
		x.recordStore(name, ref)
	}
}

// rangeInstr: map iteration. The iterator is an object carrying the ghost set of visited keys.
func (x *Exec) rangeInstr(fr *Frame, i *ssa.Range) {
	st := fr.curSt
	mt, ok := i.X.Type().Underlying().(*types.Map)
	if !ok {
		x.unsupportedf(fr, fr.curPC, "range over %s", i.X.Type())
		fr.vals[i] = Val{T: i.Type(), C: []string{"0"}}
		return
	}
	ref := x.newRef(st, "iter")
	_, ks := x.mapDomComp(mt)
	name := "IT$visited$" + typeKey(mt.Key())
	sort := arraySort(SInt, arraySort(ks, SBool))
	h := x.comp(st, name, sort)
	x.setComp(st, name, sort, sto(h, ref, fmt.Sprintf("((as const (Array %s Bool)) false)", ks)))
	fr.vals[i] = Val{T: i.Type(), C: []string{ref}}
}

func (x *Exec) nextInstr(fr *Frame, i *ssa.Next) {
	st := fr.curSt
	pc := fr.curPC
	rng, ok := i.Iter.(*ssa.Range)
	if !ok || i.IsString {
		x.unsupportedf(fr, pc, "next over non-map iterator")
		fr.vals[i] = x.freshVal(i.Name(), i.Type())
		return
	}
	mt := rng.X.Type().Underlying().(*types.Map)
	it := x.valueOf(fr, i.Iter).C[0]
	mref := x.valueOf(fr, rng.X).C[0]
	_, ks := x.mapDomComp(mt)
	name := "IT$visited$" + typeKey(mt.Key())
	sort := arraySort(SInt, arraySort(ks, SBool))
	h := x.comp(st, name, sort)
	visited := sel(h, it)
	dom := x.mapDom(st, mt, mref)
	okT := x.fresh(i.Name()+"_ok", SBool)
	key := x.fresh(i.Name()+"_k", ks)
	x.assume(pc, implies(okT, and(not(eq(mref, "0")), sel(dom, key), not(sel(visited, key)))))
	x.assume(pc, implies(not(okT), or(eq(mref, "0"),
		fmt.Sprintf("(forall ((k %s)) (! (=> (select %s k) (select %s k)) :pattern ((select %s k))))", ks, dom, visited, dom))))
	val := x.mapGet(st, mt, mref, key)
	x.setComp(st, name, sort, sto(h, it, ite(okT, sto(visited, key, "true"), visited)))
	x.recordStore(name, it)
	tp := i.Type().(*types.Tuple)
	keyV := Val{T: tp.At(1).Type(), C: []string{key}}
	x.assume(pc, implies(okT, x.typeInv(keyV, st)))
	x.assume(pc, implies(okT, x.typeInv(val, st)))
	cs := []string{okT, key}
	cs = append(cs, val.C...)
	fr.vals[i] = Val{T: i.Type(), C: cs}
}

func (x *Exec) sliceOp(fr *Frame, i *ssa.Slice) {
	pc := fr.curPC
	var lo, hi, mx string
	if i.Low != nil {
		lo = x.valueOf(fr, i.Low).C[0]
	} else {
		lo = "0"
	}
	switch xt := i.X.Type().Underlying().(type) {
	case *types.Slice:
		sv := x.valueOf(fr, i.X)
		if i.High != nil {
			hi = x.valueOf(fr, i.High).C[0]
		} else {
			hi = sv.slen()
		}
		if i.Max != nil {
			mx = x.valueOf(fr, i.Max).C[0]
		} else {
			mx = sv.scap()
		}
		goal := and(sx("<=", "0", lo), sx("<=", lo, hi), sx("<=", hi, mx), sx("<=", mx, sv.scap()))
		if !(i.Low == nil && i.High == nil && i.Max == nil) {
			x.oblige(fr, "nopanic", "slice-bounds", x.contractTags(fr), goal, pc, "slice bounds out of range on "+i.X.Name(), "")
		}
		// slicing a nil slice gives a nil slice
		fr.vals[i] = Val{T: i.Type(), C: []string{sv.base(), add(sv.off(), lo), sub(hi, lo), sub(mx, lo)}}
	case *types.Pointer:
		at := xt.Elem().Underlying().(*types.Array)
		base := x.ptrAddr(fr, i.X)
		x.nilCheck(fr, base.Ref, i.X.Name())
		n := fmt.Sprint(at.Len())
		if i.High != nil {
			hi = x.valueOf(fr, i.High).C[0]
		} else {
			hi = n
		}
		if i.Max != nil {
			mx = x.valueOf(fr, i.Max).C[0]
		} else {
			mx = n
		}
		loL, lok := litInt(lo)
		hiL, hok := litInt(hi)
		mxL, mok := litInt(mx)
		if !(lok && hok && mok && 0 <= loL && loL <= hiL && hiL <= mxL && mxL <= at.Len()) {
			x.oblige(fr, "nopanic", "slice-bounds", x.contractTags(fr), and(sx("<=", "0", lo), sx("<=", lo, hi), sx("<=", hi, mx), sx("<=", mx, n)), pc, "slice bounds out of range", "")
		}
		fr.vals[i] = Val{T: i.Type(), C: []string{base.Ref, lo, sub(hi, lo), sub(mx, lo)}}
	default:
		x.unsupportedf(fr, pc, "slice of %s", i.X.Type())
		fr.vals[i] = x.freshVal(i.Name(), i.Type())
	}
}

func (x *Exec) unop(fr *Frame, i *ssa.UnOp) {
	st := fr.curSt
	switch i.Op {
	case token.MUL: // load
		if g, ok := i.X.(*ssa.Global); ok {
			if v, ok2 := x.globalValue(fr, g); ok2 {
				fr.vals[i] = v
				return
			}
		}
		a := x.ptrAddr(fr, i.X)
		_, isFA := i.X.(*ssa.FieldAddr)
		_, isIA := i.X.(*ssa.IndexAddr)
		if !isFA && !isIA && !a.Global {
			x.nilCheck(fr, a.Ref, i.X.Name())
		}
		v := x.load(st, a)
		dv := x.defineVal(i.Name(), v)
		x.assume(fr.curPC, x.typeInv(dv, st))
		fr.vals[i] = dv
		if sl, ok := i.Type().Underlying().(*types.Slice); ok && fr.top && x.probing == 0 {
			// a slice read from a field (attribute lists of an operator): track its array across heap
			// versions by ground frame instances, like the slice parameters
			for k := range layout(sl.Elem()) {
				x.anchor(fmt.Sprintf("E$%s$%d", typeKey(sl.Elem()), k), dv.base())
			}
		}
	case token.NOT:
		fr.vals[i] = boolVal(not(x.valueOf(fr, i.X).C[0]))
	case token.SUB:
		v := x.valueOf(fr, i.X)
		if isFloat(v.T) {
			fr.vals[i] = Val{T: i.Type(), C: []string{sx("fp.neg", v.C[0])}}
		} else {
			fr.vals[i] = Val{T: i.Type(), C: []string{sub("0", v.C[0])}}
		}
	default:
		x.unsupportedf(fr, fr.curPC, "unary operator %s", i.Op)
		fr.vals[i] = x.freshVal(i.Name(), i.Type())
	}
}

func (x *Exec) binop(fr *Frame, op token.Token, a, b Val, rt types.Type, hint string) Val {
	t := a.T
	switch {
	case isDtype(t) || isPointer(t) || isMap(t):
		switch op {
		case token.EQL:
			return boolVal(eq(a.C[0], b.C[0]))
		case token.NEQ:
			return boolVal(not(eq(a.C[0], b.C[0])))
		}
	case isBool(t):
		switch op {
		case token.EQL:
			return boolVal(eq(a.C[0], b.C[0]))
		case token.NEQ:
			return boolVal(not(eq(a.C[0], b.C[0])))
		case token.AND, token.LAND:
			return boolVal(and(a.C[0], b.C[0]))
		case token.OR, token.LOR:
			return boolVal(or(a.C[0], b.C[0]))
		}
	case isString(t):
		switch op {
		case token.EQL:
			return boolVal(eq(a.C[0], b.C[0]))
		case token.NEQ:
			return boolVal(not(eq(a.C[0], b.C[0])))
		case token.ADD:
			x.uninterp("str_concat", []string{SStr, SStr}, SStr)
			return Val{T: rt, C: []string{sx("str_concat", a.C[0], b.C[0])}}
		}
	case isInteger(t):
		ai, bi := a.C[0], b.C[0]
		var r string
		switch op {
		case token.ADD:
			r = add(ai, bi)
		case token.SUB:
			r = sub(ai, bi)
		case token.MUL:
			r = mul(ai, bi)
		case token.QUO:
			x.oblige(fr, "nopanic", "div-by-zero", x.contractTags(fr), not(eq(bi, "0")), fr.curPC, "integer division by zero", "")
			r = sx("godiv", ai, bi)
		case token.REM:
			x.oblige(fr, "nopanic", "div-by-zero", x.contractTags(fr), not(eq(bi, "0")), fr.curPC, "integer modulo by zero", "")
			r = sx("gomod", ai, bi)
		case token.EQL:
			return boolVal(eq(ai, bi))
		case token.NEQ:
			return boolVal(not(eq(ai, bi)))
		case token.LSS:
			return boolVal(sx("<", ai, bi))
		case token.LEQ:
			return boolVal(sx("<=", ai, bi))
		case token.GTR:
			return boolVal(sx(">", ai, bi))
		case token.GEQ:
			return boolVal(sx(">=", ai, bi))
		case token.SHL:
			if n, ok := litInt(bi); ok && n >= 0 && n < 62 {
				r = mul(ai, intLit(1<<uint(n)))
			}
		case token.SHR:
			if n, ok := litInt(bi); ok && n >= 0 && n < 62 {
				r = sx("div", ai, intLit(1<<uint(n)))
			}
		}
		if r == "" {
			name := "int_" + sanitize(op.String())
			x.uninterp("bitop_"+fmt.Sprint(int(op)), []string{SInt, SInt}, SInt)
			r = sx("bitop_"+fmt.Sprint(int(op)), ai, bi)
			_ = name
		}
		// sized integer arithmetic wraps; int/int64/uint64 are mathematical (no-overflow assumption)
		bits, _ := intBits(rt)
		if bits < 64 {
			r = wrapInt(r, rt)
		}
		return Val{T: rt, C: []string{x.define(hint, SInt, r)}}
	case isFloat(t):
		ai, bi := a.C[0], b.C[0]
		switch op {
		case token.ADD, token.SUB, token.MUL, token.QUO:
			return Val{T: rt, C: []string{fpArith(map[token.Token]string{token.ADD: "add", token.SUB: "sub", token.MUL: "mul", token.QUO: "div"}[op], layout(t)[0].Sort, ai, bi)}}
		case token.EQL:
			return boolVal(sx("fp.eq", ai, bi))
		case token.NEQ:
			return boolVal(not(sx("fp.eq", ai, bi)))
		case token.LSS:
			return boolVal(sx("fp.lt", ai, bi))
		case token.LEQ:
			return boolVal(sx("fp.leq", ai, bi))
		case token.GTR:
			return boolVal(sx("fp.gt", ai, bi))
		case token.GEQ:
			return boolVal(sx("fp.geq", ai, bi))
		}
	case isIface(t) || isIface(b.T):
		e := and(eq(a.C[0], b.C[0]), eq(a.C[1], b.C[1]))
		switch op {
		case token.EQL:
			return boolVal(e)
		case token.NEQ:
			return boolVal(not(e))
		}
	case isSlice(t):
		// only comparison with nil is legal
		e := eq(a.base(), b.base())
		switch op {
		case token.EQL:
			return boolVal(e)
		case token.NEQ:
			return boolVal(not(e))
		}
	case isStructT(t):
		var es []string
		for k := range a.C {
			es = append(es, eq(a.C[k], b.C[k]))
		}
		switch op {
		case token.EQL:
			return boolVal(and(es...))
		case token.NEQ:
			return boolVal(not(and(es...)))
		}
	default:
		if _, ok := t.Underlying().(*types.Signature); ok {
			switch op {
			case token.EQL:
				return boolVal(eq(a.C[0], b.C[0]))
			case token.NEQ:
				return boolVal(not(eq(a.C[0], b.C[0])))
			}
		}
	}
	x.unsupportedf(fr, fr.curPC, "binary operator %s on %s", op, t)
	return x.freshVal(hint, rt)
}

// convertTerm is Go's numeric conversion to(v) as a term without definitions or assumptions, so
// that it may stand under a spec quantifier (spec builtin goconv). It mirrors convert below:
// integer narrowing wraps, float/float and integer/float round to nearest even, float to integer
// is the uninterpreted per-type-pair function convert uses.
func (x *Exec) convertTerm(v Val, to types.Type) (Val, bool) {
	from := v.T
	if from == nil {
		return v, false
	}
	switch {
	case isInteger(from) && isInteger(to):
		flo, fhi, _, _ := intRange(from)
		tlo, thi, _, _ := intRange(to)
		fl, _ := parseBig(flo)
		fh, _ := parseBig(fhi)
		tl, _ := parseBig(tlo)
		th, _ := parseBig(thi)
		if fl.Cmp(tl) >= 0 && fh.Cmp(th) <= 0 {
			return Val{T: to, C: v.C}, true
		}
		return Val{T: to, C: []string{wrapInt(v.C[0], to)}}, true
	case isFloat(from) && isFloat(to):
		if layout(from)[0].Sort == layout(to)[0].Sort {
			return Val{T: to, C: v.C}, true
		}
		if layout(to)[0].Sort == SF64 {
			return Val{T: to, C: []string{sx("(_ to_fp 11 53)", "RNE", v.C[0])}}, true
		}
		return Val{T: to, C: []string{sx("(_ to_fp 8 24)", "RNE", v.C[0])}}, true
	case isInteger(from) && isFloat(to):
		return Val{T: to, C: []string{x.intToFloat(v.C[0], layout(to)[0].Sort)}}, true
	case isFloat(from) && isInteger(to):
		fs := "f64"
		if layout(from)[0].Sort == SF32 {
			fs = "f32"
		}
		name := fmt.Sprintf("%s_to_%s", fs, typeKey(to))
		x.uninterp(name, []string{layout(from)[0].Sort}, SInt)
		return Val{T: to, C: []string{sx(name, v.C[0])}}, true
	}
	return v, false
}

// intToFloat is Go's conversion of an integer to float32 / float64. Literals keep the SMT meaning
// (round to nearest even of the real value); for any other term the conversion is an
// uninterpreted function of the integer (int_to_f32 / int_to_f64): the solvers do not decide
// to_fp over to_real of an unbounded integer variable under quantifiers, and no contract relies on
// the numeric value - only on "the same conversion of the same integer".
func (x *Exec) intToFloat(term string, sort string) string {
	lit := true
	for _, c := range strings.TrimSpace(term) {
		if !(c >= '0' && c <= '9') && c != '-' && c != '(' && c != ')' && c != ' ' {
			lit = false
			break
		}
	}
	if lit {
		if sort == SF64 {
			return sx("(_ to_fp 11 53)", "RNE", sx("to_real", term))
		}
		return sx("(_ to_fp 8 24)", "RNE", sx("to_real", term))
	}
	name := "int_to_f32"
	if sort == SF64 {
		name = "int_to_f64"
	}
	x.uninterp(name, []string{SInt}, sort)
	return sx(name, term)
}

func (x *Exec) convert(fr *Frame, v Val, to types.Type, hint string) Val {
	from := v.T
	switch {
	case isInteger(from) && isInteger(to):
		flo, fhi, _, _ := intRange(from)
		tlo, thi, _, _ := intRange(to)
		fl, _ := parseBig(flo)
		fh, _ := parseBig(fhi)
		tl, _ := parseBig(tlo)
		th, _ := parseBig(thi)
		if fl.Cmp(tl) >= 0 && fh.Cmp(th) <= 0 {
			return Val{T: to, C: v.C}
		}
		return Val{T: to, C: []string{x.define(hint, SInt, wrapInt(v.C[0], to))}}
	case isFloat(from) && isFloat(to):
		if layout(from)[0].Sort == layout(to)[0].Sort {
			return Val{T: to, C: v.C}
		}
		if layout(to)[0].Sort == SF64 {
			return Val{T: to, C: []string{sx("(_ to_fp 11 53)", "RNE", v.C[0])}}
		}
		return Val{T: to, C: []string{sx("(_ to_fp 8 24)", "RNE", v.C[0])}}
	case isInteger(from) && isFloat(to):
		return Val{T: to, C: []string{x.intToFloat(v.C[0], layout(to)[0].Sort)}}
	case isFloat(from) && isInteger(to):
		fs := "f64"
		if layout(from)[0].Sort == SF32 {
			fs = "f32"
		}
		name := fmt.Sprintf("%s_to_%s", fs, typeKey(to))
		x.uninterp(name, []string{layout(from)[0].Sort}, SInt)
		r := Val{T: to, C: []string{x.define(hint, SInt, sx(name, v.C[0]))}}
		x.assume("true", x.typeInv(r, fr.curSt))
		return r
	case isString(to) || isString(from):
		// string <-> []byte / rune conversions are not interpreted
		r := x.freshVal(hint, to)
		x.assume(fr.curPC, x.typeInv(r, fr.curSt))
		return r
	}
	if len(layout(from)) == len(layout(to)) {
		return Val{T: to, C: v.C}
	}
	x.unsupportedf(fr, fr.curPC, "conversion %s -> %s", from, to)
	return x.freshVal(hint, to)
}

// makeInterface boxes a concrete value.
func (x *Exec) makeInterface(st *State, v Val, it types.Type) Val {
	tag := x.typeTag(v.T)
	if isPointerLike(v.T) {
		// a nil pointer in an interface is a non-nil interface; payload is the reference itself
		return Val{T: it, C: []string{tag, v.C[0]}}
	}
	ref := x.newRef(st, "box")
	a := Addr{Prefix: "B$" + typeKey(v.T), Ref: ref, T: v.T}
	x.store(st, a, v)
	return Val{T: it, C: []string{tag, ref}}
}

func isPointerLike(t types.Type) bool {
	if isDtype(t) {
		return false
	}
	switch t.Underlying().(type) {
	case *types.Pointer, *types.Map, *types.Chan, *types.Signature:
		return true
	}
	return false
}

// unbox reads the concrete value of dynamic type t out of an interface value.
func (x *Exec) unbox(st *State, iv Val, t types.Type) Val {
	if isPointerLike(t) {
		return Val{T: t, C: []string{iv.pay()}}
	}
	return x.load(st, Addr{Prefix: "B$" + typeKey(t), Ref: iv.pay(), T: t})
}

func (x *Exec) typeAssert(fr *Frame, i *ssa.TypeAssert) {
	st := fr.curSt
	pc := fr.curPC
	iv := x.valueOf(fr, i.X)
	var okT string
	var val Val
	if isIface(i.AssertedType) {
		okT = x.implementsPred(iv.tag(), i.AssertedType)
		val = Val{T: i.AssertedType, C: []string{ite(okT, iv.tag(), "0"), ite(okT, iv.pay(), "0")}}
	} else {
		okT = eq(iv.tag(), x.typeTag(i.AssertedType))
		raw := x.unbox(st, iv, i.AssertedType)
		zv := zeroVal(i.AssertedType)
		val = Val{T: i.AssertedType, C: make([]string, len(raw.C))}
		for k := range raw.C {
			val.C[k] = ite(okT, raw.C[k], zv.C[k])
		}
	}
	okT = x.define(i.Name()+"_ok", SBool, okT)
	if i.CommaOk {
		dv := x.defineVal(i.Name(), val)
		x.assume(pc, implies(okT, x.typeInv(dv, st)))
		fr.vals[i] = Val{T: i.Type(), C: append(append([]string{}, dv.C...), okT)}
	} else {
		x.oblige(fr, "nopanic", "type-assert", x.contractTags(fr), okT, pc, fmt.Sprintf("type assertion %s.(%s) may panic", i.X.Name(), i.AssertedType), "")
		dv := x.defineVal(i.Name(), val)
		x.assume(pc, x.typeInv(dv, st))
		fr.vals[i] = dv
	}
}

// implementsPred: does the dynamic type with the given tag implement interface it?
// Known tags are decided with go/types; unknown tags (symbolic inputs) satisfy the interface
// their static type already guarantees, which the caller has to know; here we are conservative.
func (x *Exec) implementsPred(tag string, it types.Type) string {
	name := "implements_" + typeKey(it)
	x.uninterp(name, []string{SInt}, SBool)
	x.implUsed()[name] = it
	return and(not(eq(tag, "0")), sx(name, tag))
}

func (x *Exec) implUsed() map[string]types.Type {
	if x.implTab == nil {
		x.implTab = map[string]types.Type{}
	}
	return x.implTab
}

// implementsAxioms are emitted late (all tags known) into the preamble.
func (x *Exec) implementsAxioms() string {
	var b strings.Builder
	var names []string
	for n := range x.implTab {
		names = append(names, n)
	}
	sortStrings(names)
	for _, n := range names {
		it := x.implTab[n].Underlying().(*types.Interface)
		for id, t := range x.tagTypes {
			if types.Implements(t, it) {
				b.WriteString(fmt.Sprintf("(assert (%s %d))\n", n, id+1))
			} else {
				b.WriteString(fmt.Sprintf("(assert (not (%s %d)))\n", n, id+1))
			}
		}
	}
	return b.String()
}
