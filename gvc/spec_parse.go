package main

// Contract files: //@ comment lines -> contracts; expression parser.

import (
	"fmt"
	"math/big"
	"os"
	"path/filepath"
	"regexp"
	"strconv"
	"strings"
	"unicode"
)

// ---------------------------------------------------------------------------------------
// Expression AST

type Expr interface{ String() string }

type (
	EIdent  struct{ Name string }
	EInt    struct {
		V int64
		S string // decimal text for literals beyond int64
	}
	EStr    struct{ V string }
	EBool   struct{ V bool }
	ENil    struct{}
	EUnary  struct {
		Op string
		X  Expr
	}
	EBinary struct {
		Op   string
		X, Y Expr
	}
	ECall struct {
		Fn   string
		Args []Expr
	}
	EIndex struct{ X, I Expr }
	ESlice struct {
		X      Expr
		Lo, Hi Expr // may be nil
	}
	EField struct {
		X Expr
		F string
	}
	EQuant struct {
		Forall bool
		Vars   []QVar
		Body   Expr
	}
	EOld struct{ X Expr }
)

type QVar struct {
	Name string
	Type string // "int" (default), "string", "ref", "bool"
}

func (e EIdent) String() string  { return e.Name }
func (e EInt) String() string {
	if e.S != "" {
		return e.S
	}
	return fmt.Sprint(e.V)
}
func (e EStr) String() string    { return strconv.Quote(e.V) }
func (e EBool) String() string   { return fmt.Sprint(e.V) }
func (e ENil) String() string    { return "nil" }
func (e EUnary) String() string  { return e.Op + e.X.String() }
func (e EBinary) String() string { return "(" + e.X.String() + " " + e.Op + " " + e.Y.String() + ")" }
func (e ECall) String() string {
	var a []string
	for _, x := range e.Args {
		a = append(a, x.String())
	}
	return e.Fn + "(" + strings.Join(a, ", ") + ")"
}
func (e EIndex) String() string { return e.X.String() + "[" + e.I.String() + "]" }
func (e ESlice) String() string {
	lo, hi := "", ""
	if e.Lo != nil {
		lo = e.Lo.String()
	}
	if e.Hi != nil {
		hi = e.Hi.String()
	}
	return e.X.String() + "[" + lo + ":" + hi + "]"
}
func (e EField) String() string { return e.X.String() + "." + e.F }
func (e EQuant) String() string {
	q := "exists"
	if e.Forall {
		q = "forall"
	}
	var vs []string
	for _, v := range e.Vars {
		vs = append(vs, v.Name+" "+v.Type)
	}
	return "(" + q + " " + strings.Join(vs, ", ") + " :: " + e.Body.String() + ")"
}
func (e EOld) String() string { return "old(" + e.X.String() + ")" }

// ---------------------------------------------------------------------------------------
// Lexer

type specTok struct {
	kind string // ident int str op eof
	text string
}

func lexSpec(s string) ([]specTok, error) {
	var toks []specTok
	i := 0
	for i < len(s) {
		c := rune(s[i])
		switch {
		case unicode.IsSpace(c):
			i++
		case unicode.IsLetter(c) || c == '_' || c == '$':
			j := i + 1
			for j < len(s) && (unicode.IsLetter(rune(s[j])) || unicode.IsDigit(rune(s[j])) || s[j] == '_' || s[j] == '$') {
				j++
			}
			toks = append(toks, specTok{"ident", s[i:j]})
			i = j
		case unicode.IsDigit(c):
			j := i + 1
			for j < len(s) && (unicode.IsDigit(rune(s[j])) || s[j] == 'x' || (s[j] >= 'a' && s[j] <= 'f') || (s[j] >= 'A' && s[j] <= 'F')) {
				j++
			}
			toks = append(toks, specTok{"int", s[i:j]})
			i = j
		case c == '"':
			j := i + 1
			for j < len(s) && s[j] != '"' {
				if s[j] == '\\' {
					j++
				}
				j++
			}
			if j >= len(s) {
				return nil, fmt.Errorf("unterminated string in %q", s)
			}
			str, err := strconv.Unquote(s[i : j+1])
			if err != nil {
				return nil, err
			}
			toks = append(toks, specTok{"str", str})
			i = j + 1
		default:
			ops := []string{"<==>", "==>", "::", "==", "!=", "<=", ">=", "&&", "||", "<", ">", "+", "-", "*", "/", "%", "!", "(", ")", "[", "]", ",", ".", ":"}
			matched := false
			for _, op := range ops {
				if strings.HasPrefix(s[i:], op) {
					toks = append(toks, specTok{"op", op})
					i += len(op)
					matched = true
					break
				}
			}
			if !matched {
				return nil, fmt.Errorf("unexpected character %q in %q", c, s)
			}
		}
	}
	toks = append(toks, specTok{"eof", ""})
	return toks, nil
}

type specParser struct {
	toks []specTok
	pos  int
	src  string
}

func parseSpecExpr(s string) (e Expr, err error) {
	toks, err := lexSpec(s)
	if err != nil {
		return nil, err
	}
	p := &specParser{toks: toks, src: s}
	defer func() {
		if r := recover(); r != nil {
			if pe, ok := r.(parseErr); ok {
				err = fmt.Errorf("%s (in %q)", string(pe), s)
				return
			}
			panic(r)
		}
	}()
	e = p.parseIff()
	if p.peek().kind != "eof" {
		p.fail("unexpected %q", p.peek().text)
	}
	return e, nil
}

type parseErr string

func (p *specParser) fail(f string, a ...any) { panic(parseErr(fmt.Sprintf(f, a...))) }
func (p *specParser) peek() specTok              { return p.toks[p.pos] }
func (p *specParser) next() specTok              { t := p.toks[p.pos]; p.pos++; return t }
func (p *specParser) isOp(op string) bool {
	t := p.peek()
	return t.kind == "op" && t.text == op
}
func (p *specParser) expectOp(op string) {
	if !p.isOp(op) {
		p.fail("expected %q, found %q", op, p.peek().text)
	}
	p.pos++
}

func (p *specParser) parseIff() Expr {
	x := p.parseImp()
	for p.isOp("<==>") {
		p.pos++
		y := p.parseImp()
		x = EBinary{"<==>", x, y}
	}
	return x
}

func (p *specParser) parseImp() Expr {
	x := p.parseOr()
	if p.isOp("==>") {
		p.pos++
		y := p.parseImp()
		return EBinary{"==>", x, y}
	}
	return x
}

func (p *specParser) parseOr() Expr {
	x := p.parseAnd()
	for p.isOp("||") {
		p.pos++
		x = EBinary{"||", x, p.parseAnd()}
	}
	return x
}

func (p *specParser) parseAnd() Expr {
	x := p.parseCmp()
	for p.isOp("&&") {
		p.pos++
		x = EBinary{"&&", x, p.parseCmp()}
	}
	return x
}

func (p *specParser) parseCmp() Expr {
	x := p.parseAdd()
	// chained comparisons: a <= b < c
	var result Expr
	for {
		t := p.peek()
		if t.kind == "op" && (t.text == "==" || t.text == "!=" || t.text == "<" || t.text == "<=" || t.text == ">" || t.text == ">=") {
			p.pos++
			y := p.parseAdd()
			c := EBinary{t.text, x, y}
			if result == nil {
				result = c
			} else {
				result = EBinary{"&&", result, c}
			}
			x = y
			continue
		}
		if t.kind == "ident" && t.text == "in" {
			p.pos++
			y := p.parseAdd()
			c := EBinary{"in", x, y}
			if result == nil {
				result = c
			} else {
				result = EBinary{"&&", result, c}
			}
			x = y
			continue
		}
		break
	}
	if result == nil {
		return x
	}
	return result
}

func (p *specParser) parseAdd() Expr {
	x := p.parseMul()
	for p.isOp("+") || p.isOp("-") {
		op := p.next().text
		x = EBinary{op, x, p.parseMul()}
	}
	return x
}

func (p *specParser) parseMul() Expr {
	x := p.parseUnary()
	for p.isOp("*") || p.isOp("/") || p.isOp("%") {
		op := p.next().text
		x = EBinary{op, x, p.parseUnary()}
	}
	return x
}

func (p *specParser) parseUnary() Expr {
	if p.isOp("!") {
		p.pos++
		return EUnary{"!", p.parseUnary()}
	}
	if p.isOp("-") {
		p.pos++
		return EUnary{"-", p.parseUnary()}
	}
	return p.parsePostfix()
}

func (p *specParser) parsePostfix() Expr {
	x := p.parsePrimary()
	for {
		switch {
		case p.isOp("["):
			p.pos++
			var lo, hi Expr
			if p.isOp(":") {
				p.pos++
				if !p.isOp("]") {
					hi = p.parseIff()
				}
				p.expectOp("]")
				x = ESlice{x, nil, hi}
				continue
			}
			lo = p.parseIff()
			if p.isOp(":") {
				p.pos++
				if !p.isOp("]") {
					hi = p.parseIff()
				}
				p.expectOp("]")
				x = ESlice{x, lo, hi}
				continue
			}
			p.expectOp("]")
			x = EIndex{x, lo}
		case p.isOp("."):
			p.pos++
			t := p.next()
			if t.kind != "ident" {
				p.fail("expected field name after '.'")
			}
			x = EField{x, t.text}
		default:
			return x
		}
	}
}

func (p *specParser) parsePrimary() Expr {
	t := p.next()
	switch t.kind {
	case "int":
		v, err := strconv.ParseInt(t.text, 0, 64)
		if err != nil {
			if _, ok := new(big.Int).SetString(t.text, 10); ok {
				return EInt{S: t.text}
			}
			p.fail("bad int %q", t.text)
		}
		return EInt{V: v}
	case "str":
		return EStr{t.text}
	case "op":
		if t.text == "(" {
			e := p.parseIff()
			p.expectOp(")")
			return e
		}
		p.fail("unexpected %q", t.text)
	case "ident":
		switch t.text {
		case "true":
			return EBool{true}
		case "false":
			return EBool{false}
		case "nil":
			return ENil{}
		case "forall", "exists":
			var vars []QVar
			for {
				n := p.next()
				if n.kind != "ident" {
					p.fail("expected bound variable name")
				}
				qv := QVar{Name: n.text, Type: "int"}
				if p.peek().kind == "ident" {
					qv.Type = p.next().text
				}
				vars = append(vars, qv)
				if p.isOp(",") {
					p.pos++
					continue
				}
				break
			}
			p.expectOp("::")
			body := p.parseIff()
			return EQuant{Forall: t.text == "forall", Vars: vars, Body: body}
		case "old":
			if p.isOp("(") {
				p.pos++
				e := p.parseIff()
				p.expectOp(")")
				return EOld{e}
			}
		}
		if p.isOp("(") {
			p.pos++
			var args []Expr
			if !p.isOp(")") {
				for {
					args = append(args, p.parseIff())
					if p.isOp(",") {
						p.pos++
						continue
					}
					break
				}
			}
			p.expectOp(")")
			return ECall{Fn: t.text, Args: args}
		}
		return EIdent{t.text}
	}
	p.fail("unexpected end of expression")
	return nil
}

// ---------------------------------------------------------------------------------------
// Contracts

type Clause struct {
	Kind  string // requires ensures scope invariant assert
	Label string
	Tags  []string // properties this clause belongs to (empty = all of the contract's)
	Src   string
	E     Expr
	Loop  int // for invariants
	Line  string
}

type ModLoc struct {
	Src string
	E   Expr // location expression: x[*] (ESlice with nil bounds), x.f, x (map or pointer target), hdr(t), buf(t)
}

type Contract struct {
	Target   string // e.g. "onnx.ReadFloat32ArrayFromBytes" or "opset13.(*Conv).getOutputShape"
	Pkg      string // package (last path element) the file belongs to
	File     string
	Tags     []string
	Requires []*Clause
	Ensures  []*Clause
	Scopes   []*Clause
	Invs     map[int][]*Clause
	LoopMods map[int][]ModLoc
	Modifies []ModLoc
	HasMod   bool
	Pure     bool
	Trusted  bool   // assumed, not checked (dependency contract)
	NoInline bool   // never inline
	Family   string // non-empty: pattern contract
	Decreases map[int]Expr
	Establishes map[int][]*Clause // checked on loop entry only
	ExitAsserts map[int][]*Clause // checked (then assumed) where the loop is left through its header test
	Implicit bool   // synthesised frame-only contract (frame sweep)
	Before   map[string][]*Clause // proof hints: asserted (then assumed) before a call to the named callee
}

type SpecFunc struct {
	Name   string
	Params []QVar // Type is a Go-ish type name: int, bool, string, []byte, []int, tensor, ...
	Result string
	Body   Expr
	Src    string
}

type ContractSet struct {
	ByTarget map[string]*Contract
	Families []*Contract
	Specs    map[string]*SpecFunc
	Lemmas   []*Lemma
	Files    []string
	Mirror   bool
}

// Lemma: a pure SMT-level statement over spec functions, proved on its own (optionally by
// induction) and then available as an axiom to listed contracts via `use`.
type Lemma struct {
	Name    string
	Tags    []string
	Vars    []QVar
	Hyps    []Expr
	Concl   Expr
	Induct  string // variable to induct on (>= 0), "" for none
	Src     string
}

var clauseHead = regexp.MustCompile(`^(requires|ensures|scope|modifies|loop|tags|pure|trusted|noinline|decreases|before)\b`)

func stripSpecLine(line string) (string, bool) {
	t := strings.TrimSpace(line)
	if strings.HasPrefix(t, "//@") {
		return strings.TrimPrefix(t, "//@"), true
	}
	if strings.HasPrefix(t, "// @") {
		return strings.TrimPrefix(t, "// @"), true
	}
	return "", false
}

// parseLabelTags parses an optional "[C01,C02]" tag list and an optional "label:" prefix.
var labelRe = regexp.MustCompile(`^([A-Za-z_][A-Za-z0-9_\-]*):(?:[^:]|$)`)

func parseLabelTags(s string) (label string, tags []string, rest string) {
	s = strings.TrimSpace(s)
	if strings.HasPrefix(s, "[") {
		j := strings.Index(s, "]")
		if j > 0 {
			for _, t := range strings.Split(s[1:j], ",") {
				tags = append(tags, strings.TrimSpace(t))
			}
			s = strings.TrimSpace(s[j+1:])
		}
	}
	if m := labelRe.FindStringSubmatch(s); m != nil {
		label = m[1]
		s = strings.TrimSpace(s[len(m[1])+1:])
	}
	return label, tags, s
}

func loadContractFile(path string, cs *ContractSet) error {
	b, err := os.ReadFile(path)
	if err != nil {
		return err
	}
	pkg := ""
	var lines []string
	for _, raw := range strings.Split(string(b), "\n") {
		if strings.HasPrefix(strings.TrimSpace(raw), "package ") && pkg == "" {
			pkg = strings.TrimSpace(strings.TrimPrefix(strings.TrimSpace(raw), "package "))
			continue
		}
		if l, ok := stripSpecLine(raw); ok {
			lines = append(lines, l)
		} else if strings.TrimSpace(raw) == "" {
			lines = append(lines, "")
		}
	}
	// join continuation lines: a line that does not start a new item/clause continues the previous.
	type item struct{ text string }
	var items []string
	for _, l := range lines {
		t := strings.TrimSpace(l)
		if t == "" || strings.HasPrefix(t, "#") {
			continue
		}
		if strings.HasPrefix(t, "func ") || strings.HasPrefix(t, "spec ") || strings.HasPrefix(t, "family ") ||
			strings.HasPrefix(t, "lemma ") || strings.HasPrefix(t, "iface ") || clauseHead.MatchString(t) {
			items = append(items, t)
		} else if len(items) > 0 {
			items[len(items)-1] += " " + t
		} else {
			return fmt.Errorf("%s: stray line %q", path, t)
		}
	}
	var cur *Contract
	var curLemma *Lemma
	for _, it := range items {
		fail := func(e error) error { return fmt.Errorf("%s: %q: %v", path, it, e) }
		switch {
		case strings.HasPrefix(it, "func ") || strings.HasPrefix(it, "family ") || strings.HasPrefix(it, "iface "):
			curLemma = nil
			kind := it[:strings.Index(it, " ")]
			name := strings.TrimSpace(it[len(kind):])
			cur = &Contract{Pkg: pkg, File: path, Invs: map[int][]*Clause{}, LoopMods: map[int][]ModLoc{}, Decreases: map[int]Expr{}, Establishes: map[int][]*Clause{}, Before: map[string][]*Clause{}}
			if kind == "func" {
				cur.Target = pkg + "." + name
				if _, dup := cs.ByTarget[cur.Target]; dup {
					return fail(fmt.Errorf("duplicate contract for %s", cur.Target))
				}
				cs.ByTarget[cur.Target] = cur
			} else if kind == "iface" {
				cur.Target = "iface:" + pkg + "." + name
				cs.ByTarget[cur.Target] = cur
			} else {
				cur.Family = pkg + "." + name
				cs.Families = append(cs.Families, cur)
			}
		case strings.HasPrefix(it, "spec "):
			curLemma = nil
			sf, err := parseSpecFunc(it)
			if err != nil {
				return fail(err)
			}
			cs.Specs[sf.Name] = sf
			cur = nil
		case strings.HasPrefix(it, "lemma "):
			lm := &Lemma{Name: strings.TrimSpace(strings.TrimPrefix(it, "lemma ")), Src: it}
			cs.Lemmas = append(cs.Lemmas, lm)
			curLemma = lm
			cur = nil
		default:
			if curLemma != nil {
				if err := parseLemmaClause(curLemma, it); err != nil {
					return fail(err)
				}
				continue
			}
			if cur == nil {
				return fail(fmt.Errorf("clause outside a contract"))
			}
			m := clauseHead.FindString(it)
			rest := strings.TrimSpace(it[len(m):])
			switch m {
			case "tags":
				for _, t := range strings.Split(rest, ",") {
					cur.Tags = append(cur.Tags, strings.TrimSpace(t))
				}
			case "pure":
				cur.Pure = true
			case "trusted":
				cur.Trusted = true
			case "noinline":
				cur.NoInline = true
			case "requires", "ensures", "scope":
				label, tags, body := parseLabelTags(rest)
				e, err := parseSpecExpr(body)
				if err != nil {
					return fail(err)
				}
				cl := &Clause{Kind: m, Label: label, Tags: tags, Src: body, E: e, Line: it}
				switch m {
				case "requires":
					cur.Requires = append(cur.Requires, cl)
				case "ensures":
					cur.Ensures = append(cur.Ensures, cl)
				case "scope":
					cur.Scopes = append(cur.Scopes, cl)
				}
			case "before":
				// before <callee>[#n] assert [label:] <expr>
				f := strings.Fields(rest)
				if len(f) < 3 || f[1] != "assert" {
					return fail(fmt.Errorf("expected: before <callee> assert <expr>"))
				}
				body := strings.TrimSpace(rest[strings.Index(rest, " assert ")+8:])
				label, tags, b2 := parseLabelTags(body)
				e, err := parseSpecExpr(b2)
				if err != nil {
					return fail(err)
				}
				cur.Before[f[0]] = append(cur.Before[f[0]], &Clause{Kind: "assert", Label: label, Tags: tags, Src: b2, E: e, Line: it})
			case "modifies":
				cur.HasMod = true
				if rest == "nothing" {
					break
				}
				locs, err := parseModLocs(rest)
				if err != nil {
					return fail(err)
				}
				cur.Modifies = append(cur.Modifies, locs...)
			case "loop":
				f := strings.Fields(rest)
				if len(f) < 3 {
					return fail(fmt.Errorf("loop clause needs: loop <k> invariant|modifies <expr>"))
				}
				k, err := strconv.Atoi(f[0])
				if err != nil {
					return fail(err)
				}
				body := strings.TrimSpace(rest[strings.Index(rest, f[1])+len(f[1]):])
				switch f[1] {
				case "invariant":
					label, tags, b2 := parseLabelTags(body)
					e, err := parseSpecExpr(b2)
					if err != nil {
						return fail(err)
					}
					cur.Invs[k] = append(cur.Invs[k], &Clause{Kind: "invariant", Label: label, Tags: tags, Src: b2, E: e, Loop: k, Line: it})
				case "establishes":
					label, tags, b2 := parseLabelTags(body)
					e, err := parseSpecExpr(b2)
					if err != nil {
						return fail(err)
					}
					cur.Establishes[k] = append(cur.Establishes[k], &Clause{Kind: "establishes", Label: label, Tags: tags, Src: b2, E: e, Loop: k, Line: it})
				case "exit":
					// loop k exit assert label: expr
					b1 := strings.TrimSpace(strings.TrimPrefix(body, "assert"))
					label, tags, b2 := parseLabelTags(b1)
					e, err := parseSpecExpr(b2)
					if err != nil {
						return fail(err)
					}
					if cur.ExitAsserts == nil {
						cur.ExitAsserts = map[int][]*Clause{}
					}
					cur.ExitAsserts[k] = append(cur.ExitAsserts[k], &Clause{Kind: "exit", Label: label, Tags: tags, Src: b2, E: e, Loop: k, Line: it})
				case "modifies":
					locs, err := parseModLocs(body)
					if err != nil {
						return fail(err)
					}
					cur.LoopMods[k] = append(cur.LoopMods[k], locs...)
				default:
					return fail(fmt.Errorf("unknown loop clause %q", f[1]))
				}
			}
		}
	}
	cs.Files = append(cs.Files, path)
	return nil
}

func parseModLocs(s string) ([]ModLoc, error) {
	var out []ModLoc
	depth := 0
	start := 0
	parts := []string{}
	for i, c := range s {
		switch c {
		case '(', '[':
			depth++
		case ')', ']':
			depth--
		case ',':
			if depth == 0 {
				parts = append(parts, s[start:i])
				start = i + 1
			}
		}
	}
	parts = append(parts, s[start:])
	for _, p := range parts {
		p = strings.TrimSpace(p)
		if p == "" {
			continue
		}
		src := p
		p = strings.ReplaceAll(p, "[*]", "[:]")
		e, err := parseSpecExpr(p)
		if err != nil {
			return nil, err
		}
		out = append(out, ModLoc{Src: src, E: e})
	}
	return out, nil
}

var specFuncRe = regexp.MustCompile(`^spec\s+([A-Za-z_][A-Za-z0-9_]*)\s*\(([^)]*)\)\s*([A-Za-z\[\]0-9_.*]*)\s*=\s*(.*)$`)

func parseSpecFunc(it string) (*SpecFunc, error) {
	m := specFuncRe.FindStringSubmatch(it)
	if m == nil {
		return nil, fmt.Errorf("malformed spec function")
	}
	sf := &SpecFunc{Name: m[1], Result: m[3], Src: it}
	if sf.Result == "" {
		sf.Result = "int"
	}
	for _, p := range strings.Split(m[2], ",") {
		p = strings.TrimSpace(p)
		if p == "" {
			continue
		}
		f := strings.Fields(p)
		qv := QVar{Name: f[0], Type: "int"}
		if len(f) > 1 {
			qv.Type = f[1]
		}
		sf.Params = append(sf.Params, qv)
	}
	e, err := parseSpecExpr(m[4])
	if err != nil {
		return nil, err
	}
	sf.Body = e
	return sf, nil
}

func parseLemmaClause(lm *Lemma, it string) error {
	f := strings.SplitN(it, " ", 2)
	rest := ""
	if len(f) > 1 {
		rest = strings.TrimSpace(f[1])
	}
	switch f[0] {
	case "tags":
		for _, t := range strings.Split(rest, ",") {
			lm.Tags = append(lm.Tags, strings.TrimSpace(t))
		}
	case "requires":
		e, err := parseSpecExpr(rest)
		if err != nil {
			return err
		}
		lm.Hyps = append(lm.Hyps, e)
	case "ensures":
		e, err := parseSpecExpr(rest)
		if err != nil {
			return err
		}
		lm.Concl = e
	default:
		return fmt.Errorf("unknown lemma clause %q", f[0])
	}
	return nil
}

// loadContracts reads the contract files from /repo (or the mirror when a file is missing).
func loadContracts(repo, mirror string) (*ContractSet, error) {
	cs := &ContractSet{ByTarget: map[string]*Contract{}, Specs: map[string]*SpecFunc{}}
	rels := []string{"contracts_verif.go", "onnx/contracts_verif.go", "ops/contracts_verif.go", "ops/opset13/contracts_verif.go"}
	for _, rel := range rels {
		p := filepath.Join(repo, rel)
		if _, err := os.Stat(p); err != nil {
			p = filepath.Join(mirror, rel)
			if _, err2 := os.Stat(p); err2 != nil {
				continue
			}
			cs.Mirror = true
		}
		if err := loadContractFile(p, cs); err != nil {
			return nil, err
		}
	}
	return cs, nil
}

func hasTag(tags []string, t string) bool {
	for _, x := range tags {
		if x == t {
			return true
		}
	}
	return false
}
